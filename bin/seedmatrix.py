#!/usr/bin/env python3
"""Print the detection matrix of the seeded changes (seeded/*/meta.json) as a markdown table (DESIGN.md Appendix E)."""
import json, os, glob, re
ROOT = os.path.dirname(os.path.dirname(os.path.abspath(__file__)))
rows = []
try:
    WHAT = json.load(open(os.path.join(ROOT, "seeded", "what.json")))
except Exception:
    WHAT = {}
try:
    ST = json.load(open(os.path.join(ROOT, "seeded", "strengthened.json")))
except Exception:
    ST = {}
for d in sorted(glob.glob(os.path.join(ROOT, "seeded", "*"))):
    mp = os.path.join(d, "meta.json")
    if not os.path.exists(mp):
        continue
    m = json.load(open(mp))
    what = m.get("what", "") or WHAT.get(os.path.basename(d), "")
    prop = m["property"]
    det = m.get("detected_by", {}).get(prop, {})
    sigs = ", ".join("`%s`" % s[:70] for s in det.get("sigs", [])[:2])
    rows.append("| %s | %s | %s | %s | %s | %s |" % (os.path.basename(d), prop, what, "exit %s" % det.get("exit"), sigs, ST.get(os.path.basename(d), "caught as built")))
print("| seed | property | change and what it needs to manifest | quick check now | first signatures | history |")
print("|---|---|---|---|---|---|")
print("\n".join(rows))
