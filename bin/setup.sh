#!/bin/sh
# Offline setup: check tools, warm the Go build cache for the harness (built against /repo with -tags verif).
set -e
cd "$(dirname "$0")/.."
export GOFLAGS=-mod=mod GOPROXY=off GOSUMDB=off GOTOOLCHAIN=local
command -v tlc >/dev/null || { echo "tlc not on PATH"; exit 1; }
command -v go >/dev/null || { echo "go not on PATH"; exit 1; }
mkdir -p work evidence
cp /repo/go.sum harness/go.sum
(cd harness && go build -tags verif -o ../work/vdrive.setup . && rm -f ../work/vdrive.setup)
(cd harness && go build -race -tags verif -o ../work/vdrive.setup . && rm -f ../work/vdrive.setup) || echo "race build unavailable"
echo setup ok
