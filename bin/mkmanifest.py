#!/usr/bin/env python3
"""Regenerate MANIFEST.json from bin/plans.py (claimed properties) and properties.jsonl (the rest -> not_applicable)."""
import json, os, sys
ROOT = os.path.dirname(os.path.dirname(os.path.abspath(__file__)))
sys.path.insert(0, os.path.join(ROOT, "bin"))
import plans  # noqa: E402

props = [json.loads(l) for l in open(os.path.join(ROOT, "properties.jsonl"))]
claimed = set(plans.PLANS)
DEFAULT_TEXT = ("TLC model-checks the state machine of the TLA+ specification the property lives in, enumerates its behaviours and computes the "
                "expected observation of every step; every behaviour is replayed into the real code built from /repo's working tree, and traces "
                "recorded from the real code (replayer log, randomised drivers) are validated by TLC against the specification")
DEFAULT_NOTE = ("trusts the projector (harness/proj.go), the term evaluator's use of Go's crypto standard library, and TLC; exhaustive within the "
                "stated pools/bounds only")
DEFAULT_TECH = "explicit TLA+ specification + TLC (model checking, vector generation, trace validation) bound to the code by replay and trace validation"
hooks_commits = getattr(plans, "HOOK_COMMITS", [])
m = {"version": 1, "setup_cmd": "bin/setup.sh",
     "hooks": {"guard": "verif", "enable": "go build -tags verif (the harness module replaces github.com/free5gc/ike => /repo)",
               "baseline_off_cmd": "cd /repo && go test -vet=off -count=1 ./...", "source_commits": hooks_commits, "add_only": True},
     "engines": [{"name": "tlc+vdrive", "path": "bin/check", "serves_properties": sorted(claimed),
                  "kind_free_text": "TLA+ specification (spec/*.tla) checked and enumerated by TLC; Go replayer / trace recorder (harness/) built from /repo; TLC trace validation"}],
     "checks": [], "not_applicable": [],
     "notes": "see DESIGN.md; known_findings.txt lists defects found by the machinery (all repaired by fix: commits in /repo unless marked open)"}
for p in props:
    i = p["id"]
    if i in claimed:
        pl = plans.PLANS[i]
        m["checks"].append({"property_id": i, "quick_cmd": "bin/check %s quick" % i, "thorough_cmd": "bin/check %s thorough" % i,
                            "evidence_file": "evidence/%s.json" % i, "replay_cmd_template": "bin/check %s --replay {path}" % i, "engine": "tlc+vdrive",
                            "level_claimed": {"category": pl["level"], "text": pl.get("text", DEFAULT_TEXT), "design_ref": "DESIGN.md section 6 " + i},
                            "level_note": pl.get("note", DEFAULT_NOTE), "technique": pl.get("technique", DEFAULT_TECH)})
    else:
        m["not_applicable"].append({"property_id": i, "reason": getattr(plans, "NOT_APPLICABLE", {}).get(i, "check under construction in this session (DESIGN.md section 10 build order); not yet claimed")})
json.dump(m, open(os.path.join(ROOT, "MANIFEST.json"), "w"), indent=1)
print("claimed:", sorted(claimed))
