"""Per-property plans: which TLC runs, generation runs, drivers and trace validations decide a property."""


def codec_common(ctx, C, gens, drivers=(), mcs=(), traces=("Trace_Codec",)):
    import threading
    errs = []

    def guard(fn, *a):
        try:
            fn(*a)
        except Exception as e:  # collected, re-raised below
            errs.append(e)

    ths = []
    for m in mcs:
        ths.append(threading.Thread(target=guard, args=(C.stage_mc, ctx, m)))
    for g in gens:
        ths.append(threading.Thread(target=guard, args=(C.stage_gen, ctx, g, ctx.vdrive)))
    for d in drivers:
        ths.append(threading.Thread(target=guard, args=(C.stage_drive, ctx, d, ctx.vdrive)))
    [t.start() for t in ths]
    [t.join() for t in ths]
    if errs:
        raise errs[0]
    tps = [r.get("trace_path") for r in ctx.replays if r.get("trace_path")]
    for t in traces:
        C.stage_trace(ctx, t, tps)


GEN_CODEC = dict(module="Gen_Codec", name="codec")
DRV_CODEC = dict(name="randmsg", driver="randmsg", n_quick=300, n_thorough=6000)

ASSUME_CODEC = ["the Go projector (harness/proj.go) maps library values to the spec's D-form faithfully",
                "TLC evaluates the TLA+ reference codec correctly; the reference codec follows RFC 7296 / 3748 / 4187 / 5448"]


def run_c03(ctx, C):
    codec_common(ctx, C, [GEN_CODEC], [DRV_CODEC])


PLANS = {
    "C03": dict(level="model_checking", run=run_c03, assumptions=ASSUME_CODEC,
                rule="TLC enumerates the message pools of Pools.tla (every payload kind with boundary field values and sizes, every ordered pair "
                     "of kinds, long chains, maximum sizes); each message is encoded and decoded by the library and the projection compared with "
                     "the spec's message; random encodable messages are recorded and judged by TLC (Trace_Codec). distinct = distinct vectors"),
}
