"""Per-property plans: which TLC runs, generation runs, drivers and trace validations decide a property."""


def codec_common(ctx, C, gens, drivers=(), mcs=(), traces=("Trace_Codec",)):
    import threading
    errs = []

    def guard(fn, *a):
        try:
            fn(*a)
        except Exception as e:  # collected, re-raised below
            errs.append(e)

    ths = []
    for m in mcs:
        ths.append(threading.Thread(target=guard, args=(C.stage_mc, ctx, m)))
    for g in gens:
        ths.append(threading.Thread(target=guard, args=(C.stage_gen, ctx, g, ctx.vdrive)))
    for d in drivers:
        ths.append(threading.Thread(target=guard, args=(C.stage_drive, ctx, d, ctx.vdrive)))
    [t.start() for t in ths]
    [t.join() for t in ths]
    if errs:
        raise errs[0]
    tps = [r.get("trace_path") for r in ctx.replays if r.get("trace_path")]
    for t in traces:
        C.stage_trace(ctx, t, tps)


GEN_CODEC = dict(module="Gen_Codec", name="codec")
DRV_CODEC = dict(name="randmsg", driver="randmsg", n_quick=300, n_thorough=40000)

ASSUME_CODEC = ["the Go projector (harness/proj.go) maps library values to the spec's D-form faithfully",
                "TLC evaluates the TLA+ reference codec correctly; the reference codec follows RFC 7296 / 3748 / 4187 / 5448"]


def gen_obj(kind, prop):
    """Histories of one long-lived object (ObjHist.tla) of the given kind, attributed to the property of the calling check."""
    return dict(module="Gen_ObjHist", name="objhist_" + kind, trace=False, invariants=("Sound", "Emit"),
                constants=dict(Kind='"%s"' % kind, PropId='"%s"' % prop, MaxOps=lambda ctx: (6 if kind != "ikesa" else 5) if ctx.thorough else 4), timeout=3000)


MC_OBJ = dict(module="ObjHist", name="objhist_design", constants=dict(NVals=3, MaxOps=6, CleanLoad=True), invariants=("AsFresh",),
              what="history independence of long-lived objects: every use sees exactly the value of the last load")
MC_OBJ_KNOB = dict(module="ObjHist", name="objhist_knob_CleanLoad", expect="violate", constants=dict(NVals=3, MaxOps=6, CleanLoad=False), invariants=("AsFresh",),
                   what="sanity: if a load keeps what an earlier load left, TLC must find a use that sees it")


MC_SCRATCH = dict(module="CallScratch", name="callscratch_design", constants=dict(NVals=3, MaxOps=6, CleanOnEntry=True, CleanOnEveryExit=False), invariants=("Pure",),
                  what="calls are functions of their arguments although scratch objects outlive them: an accepted call sees nothing an earlier (refused) call left behind")
MC_SCRATCH_KNOB = dict(module="CallScratch", name="callscratch_knob_Clean", expect="violate", constants=dict(NVals=3, MaxOps=6, CleanOnEntry=False, CleanOnEveryExit=False),
                       invariants=("Pure",), what="sanity: with neither clean-on-entry nor clean-on-every-exit TLC must find a refused call followed by an accepted one that sees its leftovers")


GEN_EAP_C12 = dict(module="Gen_Eap", name="eap12", constants=dict(Kinds='{"unknown", "eap"}'))


def run_c03(ctx, C):
    codec_common(ctx, C, [GEN_CODEC, gen_obj("msg", "C03"), gen_obj("eap", "C03"), gen_akahist_wire("C03")], [DRV_CODEC], mcs=[MC_OBJ, MC_OBJ_KNOB, MC_SCRATCH, MC_SCRATCH_KNOB])
    C.stage_s3(ctx)


GEN_CURSOR = dict(module="Gen_Cursor", name="cursor", constants=dict(Window=lambda ctx: 12 if ctx.thorough else 2), trace=False, timeout=3000)
DRV_BYTES = dict(name="randbytes", driver="randbytes", n_quick=4000, n_thorough=120000)   # (500000 gives a 7 GB trace and the validation runs out of memory)


GEN_INSERT = dict(module="Gen_Insert", name="insert", trace=False)
GEN_LIBERTY = dict(module="Gen_Liberty", name="liberty")


def run_c05(ctx, C):
    codec_common(ctx, C, [GEN_CODEC, GEN_LIBERTY, gen_obj("msg", "C05"), gen_obj("eap", "C05"), gen_akahist_wire("C05")], [DRV_CODEC], mcs=[MC_OBJ, MC_OBJ_KNOB, MC_SCRATCH, MC_SCRATCH_KNOB])
    C.stage_s3(ctx)


def run_c12(ctx, C):
    codec_common(ctx, C, [GEN_CODEC, GEN_LIBERTY, GEN_CURSOR, GEN_EAP_C12, gen_obj("eap", "C12"), gen_akahist_wire("C12")], [DRV_CODEC, dict(DRV_BYTES, n_quick=1500, n_thorough=60000)])


def run_c13(ctx, C):
    codec_common(ctx, C, [GEN_INSERT, GEN_SK], [], traces=())


GEN_BUILDERS = dict(module="Gen_Builders", name="builders", constants=dict(MaxTop=lambda ctx: 2), trace=False,
                    invariants=("Sound", "Emit"))
MC_BUILDERS = dict(module="Gen_Builders", name="builders_design", constants=dict(Seed=1, Thorough=False, MaxTop=2), invariants=("Sound",),
                   properties=("EarlierUntouched", "AtMostOne"),
                   what="builder state machine: every call appends at most one payload and never touches an earlier one")


def run_c19(ctx, C):
    codec_common(ctx, C, [GEN_BUILDERS], [], mcs=[MC_BUILDERS], traces=())


GEN_HEAP = dict(module="Gen_Heap", name="heap", constants=dict(MaxOps=lambda ctx: 5 if ctx.thorough else 4), trace=False)
HEAP_KNOBS = dict(CopyOnDecode=True, EncodeFresh=True, ProtectKeepsPayloads=True, OutputsDistinct=True, EncodeLeavesInput=True, MaxOps=6)
HEAP_INVS = ("DecodedStable", "EncodePure", "EncodeDeterministic", "ProtectFootprint", "HeldOutputsIntact", "InputOnlyByCaller")
MC_HEAP = dict(module="HeapLife", name="heap_design", constants=HEAP_KNOBS, invariants=HEAP_INVS,
               what="ownership model: decode copies, encode returns a fresh buffer distinct from all earlier ones and never writes the receive buffer, protect keeps the caller's payload objects")
MC_HEAP_KNOBS = [dict(module="HeapLife", name="heap_knob_" + k, expect="violate", constants=dict(HEAP_KNOBS, **{k: False}), invariants=HEAP_INVS,
                      what="sanity: with mechanism %s removed TLC must find a counterexample (the invariants are not vacuous)" % k)
                 for k in ("CopyOnDecode", "EncodeFresh", "ProtectKeepsPayloads", "OutputsDistinct", "EncodeLeavesInput")]


def run_c20(ctx, C):
    codec_common(ctx, C, [GEN_HEAP, GEN_EAP_UNKNOWN, gen_obj("msg", "C20"), GEN_SK_SEQ20], [], mcs=[MC_HEAP] + MC_HEAP_KNOBS, traces=())


GEN_SK = dict(module="Gen_SK", name="sk", constants=dict(OnlySeq='""'))
GEN_SK_SEQ = dict(module="Gen_SK", name="sk_seq", constants=dict(OnlySeq='"C17"'), trace=False)
GEN_SK_SEQ20 = dict(module="Gen_SK", name="sk_seq", constants=dict(OnlySeq='"C20"'), trace=False)
MC_SK = dict(module="SKChannel", name="skchannel",
             constants=dict(Msgs='{"m1", "m2"}', MaxOps=lambda ctx: 5 if ctx.thorough else 4, ResetBeforeMac=True, ResetPerPrfBlock=True, MacFirst=True, PeerKeys=True),
             invariants=("AsFresh", "AcceptOnlySent", "RoundTrip", "MacBeforeDecrypt", "RetypeIsPlain", "NoReflection"), view="View",
             what="protected channel with Dolev-Yao adversary: three SA objects, two messages, all operation sequences")


def mc_sk_knob(k):
    return dict(module="SKChannel", name="skchannel_knob_" + k, expect="violate",
                constants=dict(dict(Msgs='{"m1", "m2"}', MaxOps=4, ResetBeforeMac=True, ResetPerPrfBlock=True, MacFirst=True, PeerKeys=True), **{k: False}),
                invariants=("AsFresh", "AcceptOnlySent", "RoundTrip", "MacBeforeDecrypt", "RetypeIsPlain", "NoReflection"), view="View",
                what="sanity: mechanism %s removed -> TLC must find a counterexample" % k)


ASSUME_SK = ASSUME_CODEC + ["AES, HMAC-MD5/SHA1/SHA256 are uninterpreted in the specification and interpreted by Go's crypto standard library in the harness",
                            "HMAC collisions and IV repetitions are treated as never happening"]


def gen_session(prop):
    """Whole sessions (Session.tla): key establishment on what reached each end, the protected exchanges of a script with an adversary
    on the wire, Child SAs, the EAP-AKA' codes -- on key objects the library derived itself."""
    return dict(module="Gen_Session", name="session", trace=False, invariants=("Sound", "Emit"), timeout=3000,
                constants=dict(ScriptNo=lambda ctx: 3 if ctx.thorough else 2, MaxAdv=1, MaxExtra=1, PropId='"%s"' % prop,
                               Stride=lambda ctx: 12 if ctx.thorough else 16))


def mc_session(name, script, adv, extra, dirc=True, midc=True, expect="hold"):
    return dict(module="Session", name=name, expect=expect, view="View",
                constants=dict(ScriptNo=script, MaxAdv=adv, MaxExtra=extra, DirCheck=dirc, MidCheck=midc),
                invariants=("Authentic", "KeysAgreeIffUntampered", "NothingUnderDisagreement", "LockStep", "ChildrenAgree"),
                what="one session between two library users with an adversary on the wire: acceptance only of what the peer sent under equal keys, "
                     "equal keys iff IKE_SA_INIT arrived as sent, lock step of the exchanges, equal Child SAs"
                     + ("" if expect == "hold" else " -- sanity: with this mechanism removed TLC must find a counterexample"))


MC_SESSION = [lambda ctx: mc_session("session", 2, 2 if ctx.thorough else 1, 2 if ctx.thorough else 1),
              lambda ctx: mc_session("session_knob_DirCheck", 2, 1, 1, dirc=False, expect="violate"),
              lambda ctx: mc_session("session_knob_MidCheck", 2, 1, 1, midc=False, expect="violate")]


def run_c01(ctx, C):
    for m in MC_SESSION:
        C.stage_mc(ctx, m(ctx))
    # the round trip also holds when several SAs protect and unprotect at the same time
    C.stage_race(ctx, dict(module="Gen_Schedules", name="sksets", prop="C01", constants=dict(Focus='{"protect_unprotect", "reject_then_accept"}')))
    codec_common(ctx, C, [GEN_SK, gen_hist("C01"), gen_hist("C01", long=True), gen_session("C01"), gen_obj("ikesa", "C01")], [], mcs=[MC_SK, mc_sk_knob("PeerKeys")], traces=("Trace_SK",))


GEN_ADV = dict(module="Gen_Adversary", name="adversary")


def run_c02(ctx, C):
    codec_common(ctx, C, [GEN_ADV, GEN_SK, gen_hist("C02"), gen_hist("C02", long=True), gen_obj("ikesa", "C02")], [], mcs=[MC_SK, mc_sk_knob("MacFirst"), mc_sk_knob("PeerKeys")], traces=("Trace_SK",))


def gen_hist(prop, long=False):
    """Behaviours of SKChannel on long-lived SA objects, attributed to the property of the calling check."""
    if long:
        return dict(module="Gen_Histories", name="histories_long", constants=dict(MaxOps=64, Stride=1, PropId='"%s"' % prop), invariants=("Emit",), trace=False,
                    simulate=lambda ctx: "num=%d" % (12000 if ctx.thorough else 150), workers=16)
    return dict(module="Gen_Histories", name="histories",
                constants=dict(MaxOps=lambda ctx: 4 if ctx.thorough else 3, Stride=lambda ctx: 4 if ctx.thorough else 1, PropId='"%s"' % prop),
                invariants=("Sound", "Emit"), trace=False, timeout=3000)


GEN_HIST = gen_hist("C17")
GEN_HIST_LONG = gen_hist("C17", long=True)


def run_c17(ctx, C):
    codec_common(ctx, C, [GEN_HIST, GEN_HIST_LONG, GEN_SK_SEQ, gen_obj("ikesa", "C17")], [],
                 mcs=[MC_SK, mc_sk_knob("ResetBeforeMac"), mc_sk_knob("ResetPerPrfBlock")], traces=())


GEN_KEYS = dict(module="Gen_Keys", name="keys", trace=False)
MC_SALIFE = dict(module="SALife", name="salife", constants=dict(MaxChildren=3, FailPoints="{0, 1, 2}"),
                 invariants=("Agreement", "NoKeyOnRandFailure", "ChildIsFunction", "KeysOnlyWhenDone"),
                 what="two-party key establishment with a random source that may fail at any read")


def gen_multisa(kind, prop):
    """Behaviours of MultiSA.tla (several SA objects alive at once, created from different proposals, used in every order)."""
    return dict(module="Gen_MultiSA", name="multisa_" + kind, trace=False, invariants=("Sound", "Emit"), timeout=3000,
                constants=dict(NObj=lambda ctx: 4 if ctx.thorough and kind == "child" else 3, MaxOps=lambda ctx: 8 if kind == "child" else (6 if ctx.thorough else 5), Kind='"%s"' % kind, PropId='"%s"' % prop))


MC_MULTISA = dict(module="MultiSA", name="multisa_design", constants=dict(NObj=3, MaxOps=7, TypesPerObject=True, UseOnce=False), invariants=("OwnParams",),
                  what="several SA objects alive at once: what a use observes is a function of the object's own proposal, whatever was created or used in between")
MC_MULTISA_KNOB = dict(module="MultiSA", name="multisa_knob_TypesPerObject", expect="violate", constants=dict(NObj=3, MaxOps=7, TypesPerObject=False, UseOnce=True), invariants=("OwnParams",),
                       what="sanity: if creating an object writes its parameters into a type object shared with the others, TLC must find a use that sees them")


KEY_AGREEMENT_KINDS = '{"dh", "new_ike_sa", "ike_derive", "keys_stress"}'


def run_c07(ctx, C):
    codec_common(ctx, C, [GEN_KEYS, gen_obj("ikesa", "C07"), gen_session("C07"), gen_multisa("ike", "C07")], [], mcs=[MC_SALIFE, MC_OBJ, MC_OBJ_KNOB, MC_MULTISA, MC_MULTISA_KNOB], traces=())
    # "initiator and responder end up with identical SAs" also when several key agreements run at the same time
    C.stage_race(ctx, dict(module="Gen_Schedules", name="keysets", prop="C07", constants=dict(Focus=KEY_AGREEMENT_KINDS)))
    C.stage_apalache_prfplus(ctx)


GEN_CHILD = dict(module="Gen_Child", name="child", constants=dict(N=lambda ctx: 300 if ctx.thorough else 48), trace=False)
GEN_DH = dict(module="Gen_DH", name="dh", trace=False, replay_workers=16)


def run_c08(ctx, C):
    codec_common(ctx, C, [GEN_CHILD, GEN_KEYS, gen_hist("C08"), gen_obj("ikesa", "C08"), gen_multisa("child", "C08")], [],
                 mcs=[MC_SALIFE, MC_SK, mc_sk_knob("ResetPerPrfBlock"), MC_OBJ, MC_MULTISA, MC_MULTISA_KNOB], traces=())
    C.stage_apalache_prfplus(ctx)


def run_c09(ctx, C):
    codec_common(ctx, C, [GEN_DH, GEN_KEYS], [], mcs=[MC_SALIFE], traces=())
    C.stage_race(ctx, dict(module="Gen_Schedules", name="dhsets", prop="C09", constants=dict(Focus='{"dh", "new_ike_sa", "rand", "rand_stress"}')))


GEN_CIPHER = dict(module="Gen_Cipher", name="cipher", constants=dict(PropId='"C10"'))
MC_CIPHER = dict(module="CipherObj", name="cipherobj", constants=dict(PerCallIV=True, MaxCalls=lambda ctx: 5 if ctx.thorough else 4, FailPoints="{0, 1, 2, 3}"),
                 invariants=("FreshIV", "SizeLaw", "KeySizeExact", "NoResultOnFailure"), view="View",
                 what="cipher objects, IV set and failing random source: all call sequences")
MC_CIPHER_KNOB = dict(module="CipherObj", name="cipherobj_knob_PerCallIV", expect="violate",
                      constants=dict(PerCallIV=False, MaxCalls=4, FailPoints="{0, 1, 2, 3}"),
                      invariants=("FreshIV", "SizeLaw", "KeySizeExact", "NoResultOnFailure"), view="View",
                      what="sanity: an object that caches its IV repeats it")


def run_c10(ctx, C):
    codec_common(ctx, C, [GEN_CIPHER], [], mcs=[MC_CIPHER, MC_CIPHER_KNOB], traces=("Trace_Cipher",))
    C.stage_apalache_pad(ctx)


GEN_TRANSFORMS = dict(module="Gen_Transforms", name="transforms", trace=False, timeout=3000)


def run_c11(ctx, C):
    codec_common(ctx, C, [GEN_TRANSFORMS], [], traces=())


EAP_KINDS = '{"eap", "code", "set", "sender", "receiver", "prf", "unknown"}'
GEN_EAP = dict(module="Gen_Eap", name="eap", constants=dict(Kinds=EAP_KINDS))
GEN_EAP_UNKNOWN = dict(module="Gen_Eap", name="eap_unknown", constants=dict(Kinds='{"unknown"}'))
DRV_EAP = dict(name="randeap", driver="randeap", n_quick=600, n_thorough=100000)
MC_AKA = dict(module="AkaSession", name="akasession", constants=dict(MacOverWire=True, SameKey=True), invariants=("ReceiverAgrees", "Sensitive"),
              what="EAP-AKA' packet from sender (any attribute order / reserved octets) through an adversary to the receiver")
MC_AKA2 = dict(module="AkaSession", name="akasession_otherkey", constants=dict(MacOverWire=True, SameKey=False), invariants=("ReceiverAgrees", "Sensitive"),
               what="the same with a receiver holding another key")
MC_AKA_KNOB = dict(module="AkaSession", name="akasession_knob_MacOverWire", expect="violate", constants=dict(MacOverWire=False, SameKey=True),
                   invariants=("ReceiverAgrees", "Sensitive"), what="sanity: a receiver that re-serialises before computing the code rejects honest packets in another order")


GEN_AKAHIST = dict(module="Gen_AkaHist", name="akahist", constants=dict(MaxOps=lambda ctx: 5 if ctx.thorough else 4, FromWire=False, PropId='"C14"'), trace=False)
GEN_AKAHIST_W = dict(module="Gen_AkaHist", name="akahist_wire", constants=dict(MaxOps=lambda ctx: 4 if ctx.thorough else 3, FromWire=True, PropId='"C14"'), trace=False)


def gen_akahist_wire(prop):
    return dict(module="Gen_AkaHist", name="akahist_wire", constants=dict(MaxOps=lambda ctx: 4 if ctx.thorough else 3, FromWire=True, PropId='"%s"' % prop), trace=False)


def run_c14(ctx, C):
    codec_common(ctx, C, [GEN_EAP, GEN_AKAHIST, GEN_AKAHIST_W, gen_obj("eap", "C14")], [DRV_EAP], mcs=[MC_OBJ, MC_OBJ_KNOB, MC_SCRATCH, MC_SCRATCH_KNOB], traces=("Trace_Codec",))
    C.stage_s3(ctx)


def run_c15(ctx, C):
    codec_common(ctx, C, [GEN_EAP, GEN_AKAHIST, GEN_AKAHIST_W, gen_obj("eap", "C15")], [], mcs=[MC_AKA, MC_AKA2, MC_AKA_KNOB], traces=())


def run_c16(ctx, C):
    codec_common(ctx, C, [GEN_EAP], [], traces=())


def mc_gor(name, n, lazy, scratch, expect="hold"):
    return dict(module="Goroutines", name=name, expect=expect, view="View",
                constants=dict(N=n, LazyRegistry=lazy, SharedScratch=scratch),
                invariants=("NonInterference", "RegistriesConstant"),
                what="all interleavings of %d goroutines running 1-2 two-step operations each (LazyRegistry=%s SharedScratch=%s)" % (n, lazy, scratch))


def run_c18(ctx, C):
    for m in [mc_gor("goroutines", 3, False, False), mc_gor("goroutines_knob_lazy", 2, True, False, "violate"),
              mc_gor("goroutines_knob_scratch", 2, False, True, "violate")]:
        C.stage_mc(ctx, m)
    C.stage_race(ctx, dict(module="Gen_Schedules", name="sets"))
    C.stage_cold(ctx, 100 if ctx.thorough else 10)


def run_c06(ctx, C):
    codec_common(ctx, C, [GEN_SK, gen_hist("C06")], [], mcs=[MC_SK], traces=("Trace_SK",))
    C.stage_race(ctx, dict(module="Gen_Schedules", name="sksets", prop="C06", constants=dict(Focus='{"protect_unprotect", "cipher"}')))


def run_c04(ctx, C):
    # (the SK and cipher behaviours are replayed here for "never crashes, same outcome in every capacity layout"; their recorded traces are
    #  judged by Trace_SK / Trace_Cipher in C01 C02 C06 C10 -- Trace_Codec has no use for them and they are gigabytes in the thorough tier)
    codec_common(ctx, C, [GEN_CURSOR, dict(GEN_SK, trace=False), dict(GEN_CIPHER, constants=dict(PropId='"C04"'), trace=False), GEN_EAP_UNKNOWN], [DRV_BYTES], traces=("Trace_Codec",))
    C.stage_apalache(ctx)


PLANS = {
    "C18": dict(level="exploration", run=run_c18,
                assumptions=["absence of data races is observed with the Go race detector on the executed accesses, not derived",
                             "the harness's own goroutine code is race-free (barrier start, private logs, join)"],
                rule="Goroutines.tla model-checked over all interleavings (two knob-off sanity runs: lazily initialised registry, shared scratch buffer); "
                     "TLC emits program sets in which every unordered pair of 13 operation kinds (codec, protect/unprotect, key derivation, DH, "
                     "transform mapping, EAP, random numbers, NewIKESAKey, String methods, builders, cipher, decoders sharing one read-only slice) runs "
                     "on different goroutines, plus mixed sets for N in {3, 8, 64}, GOMAXPROCS in {2, 4, 16}; free-running under -race; every "
                     "goroutine's results equal its sequential results. distinct = program sets"),
    "C14": dict(level="model_checking", run=run_c14, assumptions=ASSUME_CODEC,
                rule="EAPWire.tla reference codec (RFC 3748 / 4187 / 5448) checked against itself by TLC; all 256 codes with and without data; "
                     "Identity/Notification/Nak/Expanded pools incl. EAP-5G; EAP-AKA' subsets of the 7 settable attributes, RES 4..16, KDF_INPUT "
                     "{0..5,8,9,251..253,300}, CHECKCODE {0,20,32}; the setter offered EVERY size 0..300 for each of the 7 attribute types; library "
                     "octets judged by the strict parser (length, words, zero padding, bit length, distinct types), attributes read back, double "
                     "Marshal; random packets recorded and judged by TLC"),
    "C15": dict(level="model_checking", run=run_c15, assumptions=ASSUME_SK,
                rule="AkaSession.tla model-checked (ReceiverAgrees, Sensitive; knob-off sanity run); sender side: every AKA' packet of the pool x K_aut "
                     "lengths {0,1,16,32,33,64,65}, with a stale AT_MAC value, against HMAC-SHA-256-128 over the reference encoding with zeroed MAC; "
                     "receiver side: packets from the independent encoder in EVERY attribute order (all permutations of up to 5 attributes) and with "
                     "non-zero reserved octets, one flipped bit, another key: Unmarshal then CalcEapAkaPrimeAtMAC must give the code over the wire octets"),
    "C16": dict(level="model_checking", run=run_c16, assumptions=ASSUME_SK,
                rule="IK' x CK' lengths {0,1,15,16,17,32,64}^2 (unequal lengths expose swapped concatenation) x 7 identities (empty, ASCII, NUL octets, "
                     "0x80-0xff ramp, invalid UTF-8, 255 octets): the five outputs against PRF' terms (7 HMAC-SHA-256 blocks as named terms, counter "
                     "octet from 1, slices 0-15 / 16-47 / 48-79 / 80-143 / 144-207); empty IK' or CK' must be an error"),
    "C11": dict(level="model_checking", run=run_c11, assumptions=ASSUME_CODEC, exhaustive=True,
                rule="Transforms.tla: registry and mapping as finite functions (bijection on the advertised set checked by TLC); every advertised "
                     "algorithm -> transform (lengths from the RFC tables) -> wire -> algorithm; transform identifiers (quick: 0..40 and boundary / "
                     "one-bit-away values; thorough: all 65536) x attribute classes (absent, key length in a boundary set, foreign attribute types "
                     "incl. 14+128k, TLV-encoded) x 7 decode functions, directly and after a wire round trip; all 54 IKE and 72 Child single-choice "
                     "proposals through NewIKESAKey / NewChildSAKeyByProposal and back through ToProposal, with unsupported / missing elements; received "
                     "transforms with two or three attributes and several transforms / proposals in one SA payload (allowed: unsupported, or a size one of "
                     "the transform's OWN Key Length attributes names)"),
    "C10": dict(level="model_checking", run=run_c10, assumptions=ASSUME_SK,
                rule="CipherObj.tla model-checked (FreshIV, SizeLaw, KeySizeExact, NoResultOnFailure; knob-off sanity run); 3 key sizes x plaintext lengths "
                     "0..64 and {255,256,257,4095,4096} under deterministic and system sources (inverse, length law as a set of legal lengths, IV made of "
                     "delivered octets, no IV repeat); Decrypt EXHAUSTIVELY over total lengths 0..96 x all 256 recovered pad-length octets (spec-built "
                     "ciphertexts as AES-CBC terms) in three capacity layouts; keys of every size 0..64 for each type; call histories on two objects with "
                     "failing reads; every recorded Encrypt is judged by TLC with a textbook-CBC echo oracle (Trace_Cipher); plaintext lengths at every power of two "
                     "to 4096 with neighbours (thorough: EVERY length 0..4096); every octet value as the only octet the random source delivers; PadLaw.tla "
                     "(Apalache, all lengths and pad octets, three knob-off runs) as an extra"),
    "C08": dict(level="model_checking", run=run_c08, assumptions=ASSUME_SK,
                rule="ChildIsFunction model-checked in SALife.tla and AsFresh (with the PRF object's hidden state) in SKChannel.tla, sanity run with "
                     "Reset-per-block removed; TLC prints, for each PRF, derivation sequences on ONE long-lived IKE SA object cycling through all 12 "
                     "(encryption size x {none, MD5, SHA1, SHA2-256}) combinations and nonce lengths {0,1,32,40,64,300}; the k-th result (k up to 48 / "
                     "120) must equal the RFC 7296 2.17 terms ei, ai, er, ar of prf+(SK_d, Ni|Nr); also derivations inside two-party and history vectors; "
                     "MultiSA.tla: Child SA objects from ESP proposals of different sizes created and keyed in every interleaving (sanity run); "
                     "PrfPlusLaw.tla (Apalache) as an extra"),
    "C09": dict(level="fault_enumeration", run=run_c09, assumptions=ASSUME_SK + ["the primes of the specification are derived from the RFC formula by bin/gen_dhgroups.py",
                "crypto/rand.Reader is interposed (Go toolchain of this image honours the replaceable global)"],
                rule="13 exponent classes (0, 1, 2, p-1, p, p+1, 2^128, 2^2048-1, n (exposes every digit of the prime), random, short, two exponents "
                     "found with a leading-zero public value) x 9 peer classes (0, 1, p-1, p, p+1, 2^2056-1, 2, random, leading zeros) x 2 groups: public "
                     "value and shared secret equal LPad(ModExp) with the spec's primes, pairwise agreement through the code; GenerateRandomNumber: range "
                     "and distinctness over N draws, replay determinism, too-small draws skipped; failing source at read 0..8 for GenerateRandomNumber, "
                     "CalculateDiffieHellmanMaterials and NewIKESAKey: error and no key whenever the failure was delivered"),
    "C07": dict(level="model_checking", run=run_c07, assumptions=ASSUME_SK + ["2048-bit modular exponentiation is evaluated with math/big using the prime derived from the RFC formula"],
                rule="SALife.tla (two-party establishment, symbolic DH and key schedule) model-checked for Agreement; TLC enumerates 27 suites x 2 "
                     "groups x nonce lengths {1,4,16,32,64,512} x secret lengths {1,128,256,512} x SPI pools x algorithm infos by name / through "
                     "the SA's own proposal, and prints the seven keys as RFC 7296 2.13-2.14 terms (prf+ blocks as named HMAC terms) plus probe terms "
                     "for all seven ready-to-use objects; two-party behaviours (GetPublicValue, NewIKESAKey with a wire-decoded proposal, GetSharedKey, "
                     "GenerateKeyForIKESA) end in protected traffic both ways across the two objects and Child SA derivations on both ends; MultiSA.tla "
                     "(several IKE SA objects of different suites alive at once, probed in every order; sanity run); re-derivations that differ in one input only; "
                     "PrfPlusLaw.tla (Apalache) as an extra"),
    "C17": dict(level="model_checking", run=run_c17, assumptions=ASSUME_SK,
                rule="SKChannel.tla makes the hidden state of the MAC / PRF objects explicit (what was written since the last Reset); AsFresh is "
                     "model-checked over all operation sequences and fails when Reset-before-MAC or Reset-per-prf-block is removed (sanity runs); "
                     "ALL behaviours of the machine up to MaxOps operations (quick 3, thorough 4) and simulated behaviours of 64 operations are replayed "
                     "on real long-lived IKESAKey objects: protect (checked by a fresh peer), unprotect of genuine / flipped / truncated / spliced / "
                     "retyped / cross-key datagrams, Child SA derivations (compared with RFC 7296 2.17 terms); expected result = the fresh-object verdict"),
    "C02": dict(level="model_checking", run=run_c02, assumptions=ASSUME_SK,
                rule="SKChannel.tla with a Dolev-Yao adversary model-checked (AcceptOnlySent, MacBeforeDecrypt, NoReflection; knob-off sanity runs); for "
                     "suite x role x base message the sender really protects, then EVERY single-bit flip of the datagram, every proper prefix, extensions, "
                     "length-field overwrites with and without matching truncation, header/body/IV/checksum splices of two messages, unrelated keys, "
                     "reflection and all 255 other values of the first-payload octet are offered to the receiver (spy-wrapped key objects: Decrypt must "
                     "not be called); recorded calls are judged by Trace_SK from the octets and the echo-oracle HMAC alone"),
    "C01": dict(level="model_checking", run=run_c01, assumptions=ASSUME_SK,
                rule="SKChannel.tla model-checked (RoundTrip, NoReflection, ...); TLC enumerates suite x role x message shape (every payload kind, empty "
                     "list, long chains, pad-boundary sizes, 65 KB) x header mode x random-source class; real SA objects for both ends are keyed from "
                     "the vector's key octets; EncodeEncrypt then DecodeDecrypt in the opposite role must give the spec's message; unkeyed fallback "
                     "equals plain codec; recorded calls judged by Trace_SK"),
    "C06": dict(level="model_checking", run=run_c06, assumptions=ASSUME_SK,
                rule="direction 1: every datagram EncodeEncrypt produced is split by the spec (SplitSK) and judged with two echo oracles (HMAC over the "
                     "span the spec names, textbook CBC decryption of the segment the spec names): header cleartext, SK next-payload, both lengths, "
                     "IV, padding law, truncated HMAC under the sender's keys; direction 2: TLC prints reference-built datagrams (RefProtect) for "
                     "suite x role x message x every legal pad length x pad/IV contents and DecodeDecrypt must return the message"),
    "C20": dict(level="model_checking", run=run_c20, assumptions=ASSUME_CODEC,
                rule="HeapLife.tla (ownership of octets) model-checked exhaustively to 6 operations, with three knob-off sanity runs; every history "
                     "over {decode, unprotect, scribble input, encode, scribble output, protect, observe} up to MaxOps is replayed on a pool message "
                     "(every payload kind, so every Unmarshal copy site) with real buffers that are really overwritten; projections compared after every step"),
    "C19": dict(level="model_checking", run=run_c19, assumptions=ASSUME_CODEC + ["3GPP layouts transcribed from TS 24.502 9.3 as quoted in the property"],
                rule="TLC explores the builder state machine (Builders.tla): every builder with pooled arguments (boundary sizes incl. the 16-bit payload "
                     "limit and oversize NAS PDUs / QFI lists, all flag combinations), sub-builders (proposal/transform/selector/attribute), every "
                     "first call followed by one representative of every builder; after each call the container projection equals the spec state, "
                     "the encoding equals the reference encoder or is an error where an argument exceeds a wire limit; NewMessage header/flags/accessors; every "
                     "8-bit scalar argument over 0..255 one at a time, edge contents, address classes, many transforms of one type in every order of the calls"),
    "C05": dict(level="model_checking", run=run_c05, assumptions=ASSUME_CODEC,
                rule="direction 1: library octets for every pool message compared with the TLA+ encoder and parsed by the strict TLA+ parser (zero reserved "
                     "bits, exact lengths, chain ends in 0, fields recovered); direction 2: TLC prints datagrams of the reference encoder with sender "
                     "liberties (critical/reserved bits, RESERVED fields, CP R bit, all interleavings of 4-5 transforms, AKA' attribute orders) and the "
                     "library must decode them to the stripped value. distinct = distinct vectors"),
    "C12": dict(level="model_checking", run=run_c12, assumptions=ASSUME_CODEC,
                rule="canonical datagrams (reference encoder) must re-encode byte-identically; mutants (liberties; every size/length/count site x values x "
                     "windows; consistent re-framing; random damage) that the decoder accepts must reach a fixed point after one decode/encode step; "
                     "TLC decides canonicity and judges recorded decode/encode/decode/encode chains"),
    "C13": dict(level="model_checking", run=run_c13, assumptions=ASSUME_CODEC, exhaustive=True,
                rule="exhaustive single insertions: all 239 unsupported type codes x every position of 6 base messages x both critical-flag values; body "
                     "lengths from a pool (thorough: every length 0..1024 for three type codes); sampled double insertions; through message and chain "
                     "decoders; two unsupported payloads next to each other with every type code in either place; a used object receiving such a datagram; "
                     "expectation = the message without the inserted payload, or an error when critical"),
    "C04": dict(level="fault_enumeration", run=run_c04, assumptions=ASSUME_CODEC + ["termination is observed through a 20 s watchdog per call, not proved"],
                rule="TLC enumerates templates x every size/length/count site x field values (all 256 values of 8-bit fields, boundary sets of 16-bit "
                     "fields) x remaining-length windows; each mutant is fed to every decoding entry point in three capacity layouts under recover "
                     "and a watchdog; expected outcome from the reference parser. distinct = distinct mutants"),
    "C03": dict(level="model_checking", run=run_c03, assumptions=ASSUME_CODEC,
                rule="TLC enumerates the message pools of Pools.tla (every payload kind with boundary field values and sizes, every ordered pair "
                     "of kinds, long chains, maximum sizes); each message is encoded and decoded by the library and the projection compared with "
                     "the spec's message; random encodable messages are recorded and judged by TLC (Trace_Codec). distinct = distinct vectors"),
}
