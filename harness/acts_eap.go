package main

// Acts of AkaSession.tla: EAP-AKA' attribute setter, AT_MAC computation on built and on received packets, PRF'.

import (
	"crypto/hmac"
	"crypto/sha256"
	"sort"
	"github.com/free5gc/ike/eap"
)

func init() {
	acts["aka_set"] = actAkaSet
	acts["aka_mac"] = actAkaMac
	exclusiveActs["aka_mac"] = true // its back-to-back computations under changing keys must not interleave with another worker's
	acts["aka_prf"] = actAkaPrf
	acts["aka_new"] = actAkaNew
	acts["aka_load"] = actAkaLoad
	acts["aka_setattr"] = actAkaSetAttr
	acts["aka_marshal"] = actAkaMarshal
	acts["aka_calcmac"] = actAkaCalcMac
}

// ---- one long-lived EAP-AKA' packet object (AkaObject in Gen_AkaHist.tla): histories of setter / encoder / MAC calls

func akaObj(e *Env) *eap.EAP {
	p, _ := e.objs["akaobj"].(*eap.EAP)
	return p
}

func akaState(p *eap.EAP) []any {
	attrs, _ := projEap(p)["attrs"].([]any)
	if attrs == nil {
		attrs = []any{}
	}
	return attrs
}

func actAkaNew(e *Env, a J) J {
	p := &eap.EAP{Code: eap.EapCode(gi(a, "code")), Identifier: uint8(gi(a, "id")), EapTypeData: eap.NewEapAkaPrime(eap.EapAkaSubtype(gi(a, "sub")))}
	e.objs["akaobj"] = p
	return J{"attrs": akaState(p)}
}

// aka_load: the long-lived packet object comes out of the decoder (attributes in whatever order the wire had them)
func actAkaLoad(e *Env, a J) J {
	p := new(eap.EAP)
	err := p.Unmarshal(layouts(gox(a, "wire"), false)[0])
	o := errObs(err)
	if err == nil {
		e.objs["akaobj"] = p
		o["attrs"] = akaState(p)
	}
	return o
}

func actAkaSetAttr(e *Env, a J) J {
	p := akaObj(e)
	if p == nil {
		return J{"infra": "aka_setattr: no object"}
	}
	err := p.EapTypeData.(*eap.EapAkaPrime).SetAttr(eap.EapAkaPrimeAttrType(gi(a, "t")), gox(a, "v"))
	o := errObs(err)
	o["attrs"] = akaState(p)
	return o
}

func actAkaMarshal(e *Env, a J) J {
	p := akaObj(e)
	if p == nil {
		return J{"infra": "aka_marshal: no object"}
	}
	b, err := p.Marshal()
	o := errObs(err)
	if err == nil {
		// the order in which attributes are emitted is the encoder's choice (the properties prescribe none): the encoding is compared
		// with the reference encoding attribute by attribute, both in ascending type order; emitting twice gives the same octets
		o["wire"] = octOf(akaCanon(b))
		same := true
		for rep := 0; rep < 8 && same; rep++ {
			b2, err2 := p.Marshal()
			same = err2 == nil && string(b) == string(b2)
		}
		o["twice"] = same
	}
	o["attrs"] = akaState(p)
	return o
}

// akaCanon: an EAP packet carrying EAP-AKA' (type 50) with its attributes -- split structurally at (type, length in words) -- in
// ascending type order (stable); anything that does not split cleanly is returned as it is
func akaCanon(b []byte) []byte {
	if len(b) < 8 || b[4] != 50 {
		return b
	}
	type at struct {
		t byte
		v []byte
	}
	var ats []at
	rest := b[8:]
	for len(rest) > 0 {
		if len(rest) < 2 || rest[1] == 0 || int(rest[1])*4 > len(rest) {
			return b
		}
		n := int(rest[1]) * 4
		ats = append(ats, at{rest[0], rest[:n]})
		rest = rest[n:]
	}
	sort.SliceStable(ats, func(i, j int) bool { return ats[i].t < ats[j].t })
	out := append([]byte{}, b[:8]...)
	for _, a := range ats {
		out = append(out, a.v...)
	}
	return out
}

func actAkaCalcMac(e *Env, a J) J {
	p := akaObj(e)
	if p == nil {
		return J{"infra": "aka_calcmac: no object"}
	}
	key := gox(a, "key")
	mac, err := p.CalcEapAkaPrimeAtMAC(key)
	o := errObs(err)
	if err == nil {
		o["mac"] = octOf(mac)
		// the code is HMAC-SHA-256-128 over the packet AS IT IS SENT with the AT_MAC value zeroed: over the octets this object emits
		// now (the computation leaves AT_MAC zeroed), whatever order it emits its attributes in; those octets are a legal encoding of
		// the attribute map (refwire: compared with the reference encoding in ascending type order)
		// (asked again and again: an encoder whose attribute order varies from call to call -- map iteration -- would agree with
		//  itself only some of the time)
		ok := true
		for rep := 0; rep < 16 && ok; rep++ {
			w, werr := p.Marshal()
			if werr != nil {
				ok = false
				break
			}
			h := hmac.New(sha256.New, key)
			h.Write(w)
			ok = string(h.Sum(nil)[:16]) == string(mac)
			if rep == 0 {
				o["refwire"] = octOf(akaCanon(w))
			}
			if m2, e2 := p.CalcEapAkaPrimeAtMAC(key); e2 != nil || string(m2) != string(mac) {
				ok = false
			}
		}
		o["macok"] = ok
	}
	return o
}

// aka_set: SetAttr on a fresh EAP-AKA' value, then read the attribute back
func actAkaSet(e *Env, a J) J {
	p := eap.NewEapAkaPrime(eap.EapAkaSubtype(1))
	v := gox(a, "v")
	err := p.SetAttr(eap.EapAkaPrimeAttrType(gi(a, "t")), v)
	o := errObs(err)
	if err == nil {
		at, gerr := p.GetAttr(eap.EapAkaPrimeAttrType(gi(a, "t")))
		if gerr != nil {
			o["got"] = "missing"
		} else {
			o["got"] = octOf(at.GetValue())
		}
	}
	return o
}

// aka_mac: CalcEapAkaPrimeAtMAC either on a packet built through the API (args.eap) or on a packet decoded from
// received octets (args.wire)
func actAkaMac(e *Env, a J) J {
	var p *eap.EAP
	if w, has := a["wire"]; has {
		b, _ := anyToOct(w)
		p = new(eap.EAP)
		if err := p.Unmarshal(layouts(b, false)[0]); err != nil {
			return J{"err": true, "decodeerr": true, "errmsg": err.Error()}
		}
	} else {
		var err error
		p, err = buildEap(gj(a, "eap"))
		if err != nil {
			return J{"err": true, "builderr": err.Error()}
		}
	}
	// operations performed on the packet object before the code is computed: the code must not depend on them
	for _, x := range gl(a, "ops") {
		switch x {
		case "marshal":
			_, _ = p.Marshal()
		case "calc":
			_, _ = p.CalcEapAkaPrimeAtMAC(gox(a, "key"))
		case "setmac_result":
			if m, err := p.CalcEapAkaPrimeAtMAC(gox(a, "key")); err == nil {
				_ = p.EapTypeData.(*eap.EapAkaPrime).SetAttr(eap.AT_MAC, m)
			}
		case "setmac_garbage":
			_ = p.EapTypeData.(*eap.EapAkaPrime).SetAttr(eap.AT_MAC, fillPattern("seeded", 16, 77))
		case "reencode":
			if b, err := p.Marshal(); err == nil {
				q := new(eap.EAP)
				if q.Unmarshal(b) == nil {
					p = q
				}
			}
		}
	}
	mac, err := p.CalcEapAkaPrimeAtMAC(gox(a, "key"))
	o := errObs(err)
	if err == nil {
		o["mac"] = octOf(mac)
		// computing it again gives the same value (independent of the AT_MAC value the first computation left behind)
		first := octOf(mac)
		mac2, err2 := p.CalcEapAkaPrimeAtMAC(gox(a, "key"))
		o["again"] = err2 == nil && string(mac2) == string(first)
		// a code that was returned stays what it was when the packet computes another one (under another key)
		_, _ = p.CalcEapAkaPrimeAtMAC(fillPattern("seeded", 32, 123))
		o["stable"] = string(mac) == string(first)
		// "a different value if the key differs": the caller changes one bit of its key buffer in place and asks again, then
		// changes it back (the act runs exclusively, no other computation comes between)
		if kb := []byte(gox(a, "key")); len(kb) > 0 {
			kb[len(kb)/2] ^= 0x10
			m3, err3 := p.CalcEapAkaPrimeAtMAC(kb)
			kb[len(kb)/2] ^= 0x10
			m4, err4 := p.CalcEapAkaPrimeAtMAC(kb)
			o["keysens"] = err3 == nil && err4 == nil && string(m3) != string(first) && string(m4) == string(first)
		} else {
			o["keysens"] = true
		}
	}
	return o
}

func actAkaPrf(e *Env, a J) J {
	kEncr, kAut, kRe, msk, emsk, err := eap.EapAkaPrimePRF([]byte(gox(a, "ik")), []byte(gox(a, "ck")), string(gox(a, "identity")))
	o := errObs(err)
	o["haskeys"] = kEncr != nil || kAut != nil || kRe != nil || msk != nil || emsk != nil
	if err == nil {
		o["k_encr"], o["k_aut"], o["k_re"], o["msk"], o["emsk"] = octOf(kEncr), octOf(kAut), octOf(kRe), octOf(msk), octOf(emsk)
		e.hold("K_encr", kEncr)
		e.hold("K_aut", kAut)
		e.hold("K_re", kRe)
		e.hold("MSK", msk)
		e.hold("EMSK", emsk)
	}
	return o
}
