package main

// Acts of AkaSession.tla: EAP-AKA' attribute setter, AT_MAC computation on built and on received packets, PRF'.

import (
	"github.com/free5gc/ike/eap"
)

func init() {
	acts["aka_set"] = actAkaSet
	acts["aka_mac"] = actAkaMac
	acts["aka_prf"] = actAkaPrf
}

// aka_set: SetAttr on a fresh EAP-AKA' value, then read the attribute back
func actAkaSet(e *Env, a J) J {
	p := eap.NewEapAkaPrime(eap.EapAkaSubtype(1))
	v := gox(a, "v")
	err := p.SetAttr(eap.EapAkaPrimeAttrType(gi(a, "t")), v)
	o := errObs(err)
	if err == nil {
		at, gerr := p.GetAttr(eap.EapAkaPrimeAttrType(gi(a, "t")))
		if gerr != nil {
			o["got"] = "missing"
		} else {
			o["got"] = octOf(at.GetValue())
		}
	}
	return o
}

// aka_mac: CalcEapAkaPrimeAtMAC either on a packet built through the API (args.eap) or on a packet decoded from
// received octets (args.wire)
func actAkaMac(e *Env, a J) J {
	var p *eap.EAP
	if w, has := a["wire"]; has {
		b, _ := anyToOct(w)
		p = new(eap.EAP)
		if err := p.Unmarshal(layouts(b, false)[0]); err != nil {
			return J{"err": true, "decodeerr": true, "errmsg": err.Error()}
		}
	} else {
		var err error
		p, err = buildEap(gj(a, "eap"))
		if err != nil {
			return J{"err": true, "builderr": err.Error()}
		}
	}
	// operations performed on the packet object before the code is computed: the code must not depend on them
	for _, x := range gl(a, "ops") {
		switch x {
		case "marshal":
			_, _ = p.Marshal()
		case "calc":
			_, _ = p.CalcEapAkaPrimeAtMAC(gox(a, "key"))
		case "setmac_result":
			if m, err := p.CalcEapAkaPrimeAtMAC(gox(a, "key")); err == nil {
				_ = p.EapTypeData.(*eap.EapAkaPrime).SetAttr(eap.AT_MAC, m)
			}
		case "setmac_garbage":
			_ = p.EapTypeData.(*eap.EapAkaPrime).SetAttr(eap.AT_MAC, fillPattern("seeded", 16, 77))
		case "reencode":
			if b, err := p.Marshal(); err == nil {
				q := new(eap.EAP)
				if q.Unmarshal(b) == nil {
					p = q
				}
			}
		}
	}
	mac, err := p.CalcEapAkaPrimeAtMAC(gox(a, "key"))
	o := errObs(err)
	if err == nil {
		o["mac"] = octOf(mac)
		// computing it again gives the same value (independent of the AT_MAC value the first computation left behind)
		mac2, err2 := p.CalcEapAkaPrimeAtMAC(gox(a, "key"))
		o["again"] = err2 == nil && string(mac2) == string(mac)
	}
	return o
}

func actAkaPrf(e *Env, a J) J {
	kEncr, kAut, kRe, msk, emsk, err := eap.EapAkaPrimePRF(nilIfEmpty(gox(a, "ik")), nilIfEmpty(gox(a, "ck")), string(gox(a, "identity")))
	o := errObs(err)
	o["haskeys"] = kEncr != nil || kAut != nil || kRe != nil || msk != nil || emsk != nil
	if err == nil {
		o["k_encr"], o["k_aut"], o["k_re"], o["msk"], o["emsk"] = octOf(kEncr), octOf(kAut), octOf(kRe), octOf(msk), octOf(emsk)
	}
	return o
}
