package main

// Acts of SALife.tla / CipherObj.tla / Transforms.tla: IKE SA key derivation, Child SA derivation, Diffie-Hellman,
// random numbers under a replaceable random source, the AES-CBC transform, algorithm <-> transform mapping.

import (
	"bytes"
	"crypto/rand"
	"errors"
	"fmt"
	"hash"
	"io"
	"math/big"
	"sync"

	"github.com/free5gc/ike/message"
	"github.com/free5gc/ike/security"
	ikeCrypto "github.com/free5gc/ike/security/IKECrypto"
	"github.com/free5gc/ike/security/dh"
	"github.com/free5gc/ike/security/encr"
	"github.com/free5gc/ike/security/esn"
	"github.com/free5gc/ike/security/integ"
	"github.com/free5gc/ike/security/prf"
)

func init() {
	acts["derive_child"] = actDeriveChild
	acts["ike_derive"] = actIkeDerive
	acts["new_ike_sa"] = actNewIkeSA
	acts["sa_probe"] = actSaProbe
	acts["dh_pub"] = actDhPub
	acts["dh_shared"] = actDhShared
	acts["dh_calc"] = actDhCalc
	acts["child_new"] = actChildNew
	acts["gen_random"] = actGenRandom
	acts["cipher_new"] = actCipherNew
	acts["cipher_encrypt"] = actCipherEncrypt
	acts["cipher_decrypt"] = actCipherDecrypt
	acts["alg_to_transform"] = actAlgToTransform
	acts["transform_to_alg"] = actTransformToAlg
	acts["proposal_roundtrip"] = actProposalRoundtrip
	for _, a := range []string{"new_ike_sa", "dh_calc", "gen_random", "cipher_encrypt"} {
		exclusiveActs[a] = true
	}
}

// ---------------------------------------------------------------------------------------- random source

// recReader is the replaceable random source: deterministic stream, optional failure at the k-th Read call,
// and a record of everything it delivered.
type recReader struct {
	mode      string // det | fail | replay
	seed      int
	failAt    int // Read call index (0-based) that fails; -1 never
	chunk     int // > 0: a Read delivers at most chunk octets (short reads, as a real source may)
	stream    []byte
	val       int // mode "const"
	pos       int
	reads     int
	delivered []byte
}

func (r *recReader) Read(b []byte) (int, error) {
	idx := r.reads
	r.reads++
	if r.failAt >= 0 && (idx == r.failAt || (idx > r.failAt && r.mode != "failonce")) {
		// "fail": from read failAt on; "failonce": that read only.  What a failing source returns is its own business: an error of
		// its own, a source that has run dry (io.EOF with nothing read), io.ErrUnexpectedEOF
		switch (r.seed + r.failAt) % 3 {
		case 1:
			return 0, io.EOF
		case 2:
			return 0, io.ErrUnexpectedEOF
		}
		return 0, errors.New("verif: random source failure")
	}
	if r.chunk > 0 && len(b) > r.chunk {
		b = b[:r.chunk]
	}
	for i := range b {
		var v byte
		switch r.mode {
		case "replay":
			if r.pos < len(r.stream) {
				v = r.stream[r.pos]
			}
		case "zero":
			v = 0
		case "ff":
			v = 0xff
		case "const": // every octet the source delivers has the same value
			v = byte(r.val)
		default:
			v = byte((r.seed*131 + r.pos*29 + (r.pos/7)*17 + 11) % 251)
		}
		r.pos++
		b[i] = v
	}
	r.delivered = append(r.delivered, b...)
	return len(b), nil
}

// seenPub reports whether a local public value was already produced earlier in this behaviour (C09: locally generated
// exponents differ from call to call)
func seenPub(e *Env, pub []byte) bool {
	m, _ := e.objs["pubs"].(map[string]bool)
	if m == nil {
		m = map[string]bool{}
		e.objs["pubs"] = m
	}
	was := m[string(pub)]
	m[string(pub)] = true
	return was
}

func readerOf(spec J) *recReader {
	if spec == nil || gs(spec, "mode") == "" || gs(spec, "mode") == "system" {
		return nil
	}
	r := &recReader{mode: gs(spec, "mode"), seed: gi(spec, "seed"), failAt: -1}
	if _, ok := spec["val"]; ok {
		r.val = gi(spec, "val")
	}
	if _, has := spec["failat"]; has {
		r.failAt = gi(spec, "failat")
	}
	r.chunk = gi(spec, "chunk")
	if r.mode == "replay" {
		r.stream = gox(spec, "stream")
	}
	return r
}

// withReader runs f with crypto/rand.Reader replaced by r (nil: untouched); callers hold randMu exclusively.
func withReader(r *recReader, f func()) {
	if r == nil {
		f()
		return
	}
	old := rand.Reader
	rand.Reader = r
	defer func() { rand.Reader = old }()
	f()
}

func randObs(r *recReader, o J) {
	if r != nil {
		o["failseen"] = r.failAt >= 0 && r.reads > r.failAt
		o["reads"] = r.reads
		o["delivered"] = octOf(r.delivered)
		o["ndelivered"] = len(r.delivered)
	}
}

// ---------------------------------------------------------------------------------------- Child SA

// actChildNew creates a Child SA object from a negotiated ESP proposal and keeps it under a name; it is keyed by a later
// derive_child step that names it (obj) -- other objects may be created and used in between (MultiSA.tla)
func actChildNew(e *Env, a J) J {
	c, obs := childObject(a, false)
	if c == nil {
		return obs
	}
	e.objs["child:"+gs(a, "name")] = c
	return J{"err": false}
}

func actDeriveChild(e *Env, a J) J {
	o := getSA(e, a)
	if o == nil {
		return J{"infra": "derive_child: unknown SA"}
	}
	var c *security.ChildSAKey
	if n := gs(a, "obj"); n != "" {
		c, _ = e.objs["child:"+n].(*security.ChildSAKey)
		if c == nil {
			return J{"infra": "derive_child: unknown Child SA object " + n}
		}
	} else {
		var obs J
		c, obs = childObject(a, true)
		if c == nil {
			return obs
		}
	}
	return childKeyObs(e, c, o, a)
}

// childObject builds the Child SA object a step asks for (by name, or through a negotiated proposal: via); with decoy the next
// negotiation comes in before the object is keyed
func childObject(a J, decoy bool) (*security.ChildSAKey, J) {
	ret := J{}
	c := new(security.ChildSAKey)
	c.EncrKInfo = encr.StrToKType(encrNames[gi(a, "encr")])
	if n := gs(a, "integ"); n != "" && n != "none" {
		c.IntegKInfo = integ.StrToKType(integNames[n])
		if c.IntegKInfo == nil {
			return nil, J{"err": true, "errmsg": "StrToKType: no ESP integrity type for " + n}
		}
	}
	if c.EncrKInfo == nil { // the library does not know an ESP algorithm it advertises, by its own name
		return nil, J{"err": true, "errmsg": fmt.Sprintf("StrToKType: no ESP encryption type for %d-bit AES-CBC", gi(a, "encr"))}
	}
	if via := gs(a, "via"); via != "" {
		// the Child SA as it comes out of a negotiated ESP proposal (NewChildSAKeyByProposal), with or without a DH transform:
		// the proposal the name-built object advertises, optionally without / with another group, over the wire and back
		p, err := c.ToProposal()
		if err != nil {
			return nil, J{"infra": "derive_child: ToProposal: " + err.Error()}
		}
		switch via {
		case "proposal-dh2":
			p.DiffieHellmanGroup = message.TransformContainer{dh.ToTransform(dh.StrToType(dhNames[2]))}
		case "proposal-dh14":
			p.DiffieHellmanGroup = message.TransformContainer{dh.ToTransform(dh.StrToType(dhNames[14]))}
		default:
			p.DiffieHellmanGroup = nil
		}
		sa := &message.SecurityAssociation{Proposals: message.ProposalContainer{p}}
		b, err := sa.Marshal()
		if err != nil {
			return nil, J{"infra": "derive_child: marshal: " + err.Error()}
		}
		sa2 := new(message.SecurityAssociation)
		if err := sa2.Unmarshal(b); err != nil {
			return nil, J{"infra": "derive_child: unmarshal: " + err.Error()}
		}
		c2, err := security.NewChildSAKeyByProposal(sa2.Proposals[0])
		if err != nil {
			return nil, J{"err": true, "errmsg": "NewChildSAKeyByProposal: " + err.Error()}
		}
		c = c2
		// before this Child SA is keyed the next negotiation comes in (another ESP proposal: other key size, other integrity
		// algorithm) and gets its own object -- which is none of this one's business
		if p2, err := c.ToProposal(); err == nil && decoy {
			alt := map[int]int{128: 256, 192: 128, 256: 192}[gi(a, "encr")]
			if t2, err := encr.ToTransformChildSA(encr.StrToKType(encrNames[alt])); err == nil && t2 != nil {
				p2.EncryptionAlgorithm = message.TransformContainer{t2}
			}
			if n := gs(a, "integ"); n != "" && n != "none" {
				other := map[string]string{"md5": "sha256", "sha1": "md5", "sha256": "sha1"}[n]
				p2.IntegrityAlgorithm = message.TransformContainer{integ.ToTransformChildSA(integ.StrToKType(integNames[other]))}
			}
			sa3 := &message.SecurityAssociation{Proposals: message.ProposalContainer{p2}}
			if b3, err := sa3.Marshal(); err == nil {
				sa4 := new(message.SecurityAssociation)
				if sa4.Unmarshal(b3) == nil {
					_, _ = security.NewChildSAKeyByProposal(sa4.Proposals[0])
				}
			}
		}
	}
	// a caller may give the object key storage of its own: four empty slices with room for the keys, side by side in one buffer
	// (every other object; nil fields otherwise)
	if (gi(a, "encr")/64+len(gs(a, "integ"))+len(gox(a, "nonce")))%2 == 0 {
		arena := make([]byte, 4*64)
		c.InitiatorToResponderEncryptionKey = arena[0:0:64]
		c.InitiatorToResponderIntegrityKey = arena[64:64:128]
		c.ResponderToInitiatorEncryptionKey = arena[128:128:192]
		c.ResponderToInitiatorIntegrityKey = arena[192:192:256]
	}
	return c, ret
}

func childKeyObs(e *Env, c *security.ChildSAKey, o *saObj, a J) J {
	err := c.GenerateKeyForChildSA(o.key, []byte(gox(a, "nonce")))
	obs := errObs(err)
	if err == nil {
		e.hold("child ei", c.InitiatorToResponderEncryptionKey)
		e.hold("child ai", c.InitiatorToResponderIntegrityKey)
		e.hold("child er", c.ResponderToInitiatorEncryptionKey)
		e.hold("child ar", c.ResponderToInitiatorIntegrityKey)
		obs["ei"] = octOf(c.InitiatorToResponderEncryptionKey)
		obs["ai"] = octOf(c.InitiatorToResponderIntegrityKey)
		obs["er"] = octOf(c.ResponderToInitiatorEncryptionKey)
		obs["ar"] = octOf(c.ResponderToInitiatorIntegrityKey)
	}
	return obs
}

// ---------------------------------------------------------------------------------------- IKE SA keys

func hashProbe(h hash.Hash, probe []byte) Oct {
	if h == nil {
		return nil
	}
	h.Reset()
	h.Write(probe)
	return h.Sum(nil)
}

func keyObs(k *security.IKESAKey, a J, obs J) {
	// rendering an SA (logging) is an observation: it changes nothing
	func() {
		defer func() { _ = recover() }()
		_ = k.String()
		_ = fmt.Sprintf("%v", k)
	}()
	obs["sk_d"], obs["sk_ai"], obs["sk_ar"] = octOf(k.SK_d), octOf(k.SK_ai), octOf(k.SK_ar)
	obs["sk_ei"], obs["sk_er"], obs["sk_pi"], obs["sk_pr"] = octOf(k.SK_ei), octOf(k.SK_er), octOf(k.SK_pi), octOf(k.SK_pr)
	if p, has := a["probe"]; has {
		probe, _ := anyToOct(p)
		obs["p_prf_d"] = hashProbe(k.Prf_d, probe)
		obs["p_integ_i"] = hashProbe(k.Integ_i, probe)
		obs["p_integ_r"] = hashProbe(k.Integ_r, probe)
		obs["p_prf_i"] = hashProbe(k.Prf_i, probe)
		obs["p_prf_r"] = hashProbe(k.Prf_r, probe)
	}
	dec := func(c ikeCrypto.IKECrypto, key string) {
		if ct, has := a[key]; has && c != nil {
			b, _ := anyToOct(ct)
			pt, err := c.Decrypt(b)
			if err == nil {
				obs["p_"+key] = octOf(pt)
			} else {
				obs["p_"+key] = "error"
			}
		}
	}
	dec(k.Encr_i, "ct_i")
	dec(k.Encr_r, "ct_r")
}

// sa_probe: what the ready-to-use objects of an SA compute on probe inputs (C07: "keyed with exactly those keys")
func actSaProbe(e *Env, a J) J {
	o := getSA(e, a)
	if o == nil {
		return J{"infra": "sa_probe: unknown SA"}
	}
	obs := J{}
	keyObs(o.key, a, obs)
	return obs
}

func infosFromNames(k *security.IKESAKey, suite J, grp int) {
	k.EncrInfo = encr.StrToType(encrNames[gi(suite, "encr")])
	k.IntegInfo = integ.StrToType(integNames[gs(suite, "integ")])
	k.PrfInfo = prf.StrToType(prfNames[gs(suite, "prf")])
	k.DhInfo = dh.StrToType(dhNames[grp])
}

func registerSA(e *Env, name string, k *security.IKESAKey, suite J) {
	if name == "" {
		return
	}
	keys := J{"sk_d": octOf(k.SK_d), "sk_ai": octOf(k.SK_ai), "sk_ar": octOf(k.SK_ar), "sk_ei": octOf(k.SK_ei), "sk_er": octOf(k.SK_er),
		"sk_pi": octOf(k.SK_pi), "sk_pr": octOf(k.SK_pr)}
	o := &saObj{key: k, log: &spyLog{}, keys: keys, suite: suite}
	k.Integ_i = &spyHash{k.Integ_i, o.log, "integ_i"}
	k.Integ_r = &spyHash{k.Integ_r, o.log, "integ_r"}
	k.Prf_d = &spyHash{k.Prf_d, o.log, "prf_d"}
	k.Encr_i = &spyCrypto{k.Encr_i, o.log, "encr_i"}
	k.Encr_r = &spyCrypto{k.Encr_r, o.log, "encr_r"}
	e.objs["sa:"+name] = o
}

func actIkeDerive(e *Env, a J) J {
	suite := gj(a, "suite")
	k := new(security.IKESAKey)
	if rk := gs(a, "rekey"); rk != "" {
		// a second derivation on the SAME key object (IKE_SA_INIT repeated after COOKIE / INVALID_KE_PAYLOAD): the object
		// the earlier step registered, with everything the earlier derivation left in it
		if o, _ := e.objs["sa:"+rk].(*saObj); o != nil {
			k = o.key
		} else {
			return J{"infra": "ike_derive: rekey of unknown SA " + rk}
		}
	}
	infosFromNames(k, suite, gi(a, "grp"))
	if k.EncrInfo == nil || k.IntegInfo == nil || k.PrfInfo == nil || k.DhInfo == nil {
		return J{"infra": "ike_derive: algorithm not registered"}
	}
	if gs(a, "via") == "transform" { // through the SA's own proposal: algorithms -> transforms -> algorithms
		p, err := k.ToProposal()
		if err != nil {
			return J{"err": true, "errmsg": err.Error()}
		}
		k2 := new(security.IKESAKey)
		k2.EncrInfo = encr.DecodeTransform(p.EncryptionAlgorithm[0])
		k2.IntegInfo = integ.DecodeTransform(p.IntegrityAlgorithm[0])
		k2.PrfInfo = prf.DecodeTransform(p.PseudorandomFunction[0])
		k2.DhInfo = dh.DecodeTransform(p.DiffieHellmanGroup[0])
		k = k2
	}
	err := k.GenerateKeyForIKESA(nilIfEmpty(gox(a, "nonce")), nilIfEmpty(gox(a, "secret")), u64of(gox(a, "spii")), u64of(gox(a, "spir")))
	obs := errObs(err)
	if err == nil {
		keyObs(k, a, obs)
		registerSA(e, gs(a, "name"), k, suite)
	}
	return obs
}

func actNewIkeSA(e *Env, a J) J {
	pj := gj(a, "prop")
	pl, err := buildPayload(J{"k": "SA", "props": []any{pj}})
	if err != nil {
		return J{"infra": "new_ike_sa: " + err.Error()}
	}
	prop := pl.(*message.SecurityAssociation).Proposals[0]
	if gb(a, "wire") { // the proposal as a peer would receive it
		b, err := pl.Marshal()
		if err != nil {
			return J{"infra": "new_ike_sa marshal: " + err.Error()}
		}
		sa2 := new(message.SecurityAssociation)
		if err := sa2.Unmarshal(b); err != nil {
			return J{"infra": "new_ike_sa unmarshal: " + err.Error()}
		}
		prop = sa2.Proposals[0]
	}
	r := readerOf(gj(a, "rand"))
	var k *security.IKESAKey
	var pub []byte
	withReader(r, func() {
		k, pub, err = security.NewIKESAKey(prop, nilIfEmpty(gox(a, "peer")), nilIfEmpty(gox(a, "nonce")), u64of(gox(a, "spii")), u64of(gox(a, "spir")))
	})
	obs := errObs(err)
	randObs(r, obs)
	obs["haskey"] = k != nil
	obs["haspub"] = pub != nil
	// a failure delivered by the random source must surface as an error and no key (C09)
	obs["faultok"] = r == nil || !(r.failAt >= 0 && r.reads > r.failAt) || (err != nil && k == nil && pub == nil)
	if err == nil && k != nil {
		obs["pub"] = octOf(pub)
		obs["publen"] = len(pub)
		obs["repeat"] = seenPub(e, pub)
		// before the caller looks at its new SA the next IKE_SA_INIT is answered (another suite, another group): its own object
		if pj2 := decoyIkeProposal(pj); pj2 != nil {
			if pl2, err := buildPayload(J{"k": "SA", "props": []any{pj2}}); err == nil {
				_, _, _ = security.NewIKESAKey(pl2.(*message.SecurityAssociation).Proposals[0], fillPattern("seeded", 128, 5), fillPattern("seeded", 20, 6), 7, 8)
			}
		}
		keyObs(k, a, obs)
		registerSA(e, gs(a, "name"), k, gj(a, "suite"))
	}
	return obs
}

// decoyIkeProposal: the proposal with every transform replaced by ANOTHER supported one of its type (nil if it has a transform
// the harness has no alternative for)
func decoyIkeProposal(pj J) J {
	trs, _ := pj["tr"].([]any)
	if len(trs) == 0 {
		return nil
	}
	var out []any
	for _, x := range trs {
		t, ok := x.(J)
		if !ok {
			return nil
		}
		n := J{}
		for k, v := range t {
			n[k] = v
		}
		switch gi(t, "tt") {
		case 1:
			if gi(t, "tid") != 12 || gs(t, "attr") != "tv" {
				return nil
			}
			n["av"] = map[int]int{128: 256, 192: 128, 256: 192}[gi(t, "av")]
			if n["av"] == 0 {
				return nil
			}
		case 2:
			n["tid"] = map[int]int{1: 5, 2: 1, 5: 2}[gi(t, "tid")]
			if n["tid"] == 0 {
				return nil
			}
		case 3:
			n["tid"] = map[int]int{1: 12, 2: 1, 12: 2}[gi(t, "tid")]
			if n["tid"] == 0 {
				return nil
			}
		case 4:
			n["tid"] = map[int]int{2: 14, 14: 2}[gi(t, "tid")]
			if n["tid"] == 0 {
				return nil
			}
		default:
			return nil
		}
		out = append(out, n)
	}
	return J{"num": 1, "proto": 1, "spi": Oct{}, "tr": out}
}

// ---------------------------------------------------------------------------------------- Diffie-Hellman, random numbers

// The numbers handed to the group are the caller's objects: they are used for the call and hold the same value afterwards
// (argsame); the same call made again with the same objects gives the same octets (again).
func actDhPub(e *Env, a J) J {
	t := dh.StrToType(dhNames[gi(a, "grp")])
	if t == nil {
		return J{"infra": "dh group"}
	}
	x := new(big.Int).SetBytes(gox(a, "x"))
	x0 := new(big.Int).Set(x)
	pub := t.GetPublicValue(x)
	e.hold("dh public value", pub)
	o := J{"pub": octOf(pub)}
	pub2 := t.GetPublicValue(x)
	o["again"] = string(pub2) == string(o["pub"].(Oct))
	o["argsame"] = x.Cmp(x0) == 0
	return o
}

func actDhShared(e *Env, a J) J {
	t := dh.StrToType(dhNames[gi(a, "grp")])
	if t == nil {
		return J{"infra": "dh group"}
	}
	x, y := new(big.Int).SetBytes(gox(a, "x")), new(big.Int).SetBytes(gox(a, "peer"))
	x0, y0 := new(big.Int).Set(x), new(big.Int).Set(y)
	sh := t.GetSharedKey(x, y)
	e.hold("dh shared secret", sh)
	o := J{"shared": octOf(sh)}
	sh2 := t.GetSharedKey(x, y)
	o["again"] = string(sh2) == string(o["shared"].(Oct))
	o["argsame"] = x.Cmp(x0) == 0 && y.Cmp(y0) == 0
	return o
}

func actDhCalc(e *Env, a J) J {
	k := new(security.IKESAKey)
	if n := gs(a, "obj"); n != "" { // ONE key object through several key exchanges (a retry after INVALID_KE_PAYLOAD / COOKIE)
		if old, ok := e.objs["dhobj:"+n].(*security.IKESAKey); ok {
			k = old
		} else {
			e.objs["dhobj:"+n] = k
		}
	}
	k.DhInfo = dh.StrToType(dhNames[gi(a, "grp")])
	r := readerOf(gj(a, "rand"))
	var pub, shared []byte
	var err error
	withReader(r, func() { pub, shared, err = security.CalculateDiffieHellmanMaterials(k, gox(a, "peer")) })
	obs := errObs(err)
	randObs(r, obs)
	obs["haspub"] = pub != nil
	obs["faultok"] = r == nil || !(r.failAt >= 0 && r.reads > r.failAt) || (err != nil && pub == nil && shared == nil)
	if err == nil {
		obs["pub"] = octOf(pub)
		obs["shared"] = octOf(shared)
		obs["repeat"] = seenPub(e, pub)
	}
	return obs
}

func actGenRandom(e *Env, a J) J {
	r := readerOf(gj(a, "rand"))
	n := gi(a, "n")
	if n <= 0 {
		n = 1
	}
	var nums []any
	var err error
	distinct := map[string]bool{}
	inRange := true
	lo := new(big.Int).Lsh(big.NewInt(1), 128)
	hi := new(big.Int).Lsh(big.NewInt(1), 2048)
	withReader(r, func() {
		for i := 0; i < n && err == nil; i++ {
			var x *big.Int
			x, err = security.GenerateRandomNumber()
			if err == nil {
				if x.Cmp(lo) < 0 || x.Cmp(hi) >= 0 {
					inRange = false
				}
				distinct[x.String()] = true
				if len(nums) < 4 {
					b := x.Bytes()
					nums = append(nums, Oct(append(make([]byte, 256-len(b)), b...)))
				}
			}
		}
	})
	obs := errObs(err)
	randObs(r, obs)
	obs["hasnum"] = err == nil
	obs["faultok"] = r == nil || !(r.failAt >= 0 && r.reads > r.failAt) || err != nil
	if err == nil {
		obs["num"] = nums[0]
		obs["inrange"] = inRange
		obs["distinct"] = len(distinct)
	}
	return obs
}

// ---------------------------------------------------------------------------------------- AES-CBC transform

func actCipherNew(e *Env, a J) J {
	t := encr.StrToType(encrNames[gi(a, "bits")])
	if t == nil {
		return J{"infra": "cipher_new bits"}
	}
	c, err := t.NewCrypto(gox(a, "key"))
	obs := errObs(err)
	obs["hasobj"] = c != nil && err == nil
	if err == nil {
		e.objs["cipher:"+gs(a, "name")] = c
		e.objs["cipherkey:"+gs(a, "name")] = octOf(gox(a, "key"))
	}
	return obs
}

func actCipherEncrypt(e *Env, a J) J {
	c, _ := e.objs["cipher:"+gs(a, "obj")].(ikeCrypto.IKECrypto)
	if c == nil {
		return J{"infra": "cipher_encrypt: no object"}
	}
	r := readerOf(gj(a, "rand"))
	pt := []byte(gox(a, "pt")) // the caller's own buffer (it has spare capacity): what it holds is the caller's, before and after
	ptCopy := octOf(pt)
	var ct []byte
	var err error
	withReader(r, func() { ct, err = c.Encrypt(pt) })
	obs := errObs(err)
	randObs(r, obs)
	obs["hasct"] = ct != nil
	obs["ptsame"] = string(pt[:len(ptCopy)]) == string(ptCopy)
	if err == nil {
		obs["ct"] = octOf(ct)
		obs["ctlen"] = len(ct)
		if len(ct) >= 16 {
			iv := ct[:16]
			obs["iv"] = octOf(iv)
			if r != nil { // the IV is made of octets the random source delivered during this call
				obs["ivdelivered"] = bytes.Contains(r.delivered, iv)
			}
			seen, _ := e.objs["ivs"].(map[string]bool)
			if seen == nil {
				seen = map[string]bool{}
				e.objs["ivs"] = seen
			}
			// freshness is judged against the system source only: a replaced source that delivers the same octets again
			// legitimately yields the same IV again (which octets of the stream become the IV is the library's business)
			obs["ivrepeat"] = r == nil && seen[string(iv)]
			if r == nil {
				seen[string(iv)] = true
			}
			// echo oracle for the trace specification: textbook CBC decryption under the object's key
			if key, ok := e.objs["cipherkey:"+gs(a, "obj")].(Oct); ok && (len(ct)-16)%16 == 0 {
				if full, derr := cbcDecrypt(key, iv, ct[16:]); derr == nil {
					obs["oracle"] = J{"key": key, "iv_span": []any{0, 16}, "ct_span": []any{16, len(ct)}, "pt": full}
				}
			}
		}
	}
	return obs
}

func actCipherDecrypt(e *Env, a J) J {
	c, _ := e.objs["cipher:"+gs(a, "obj")].(ikeCrypto.IKECrypto)
	if c == nil {
		return J{"infra": "cipher_decrypt: no object"}
	}
	return overLayouts(gox(a, "ct"), gb(a, "caps"), func(b []byte) J {
		pt, err := c.Decrypt(b)
		obs := errObs(err)
		if err == nil {
			obs["pt"] = octOf(pt)
		}
		return obs
	})
}

// ---------------------------------------------------------------------------------------- algorithm <-> transform

func algName(kind string, v any) (string, J) {
	info := J{}
	switch kind {
	case "encr":
		t, _ := v.(encr.ENCRType)
		if t == nil {
			return "unsupported", info
		}
		info["keylen"] = t.GetKeyLength()
		for bits, n := range encrNames {
			if encr.StrToType(n) == t {
				return fmt.Sprintf("aes-cbc-%d", bits), info
			}
		}
	case "encrk":
		t, _ := v.(encr.ENCRKType)
		if t == nil {
			return "unsupported", info
		}
		info["keylen"] = t.GetKeyLength()
		for bits, n := range encrNames {
			if encr.StrToKType(n) == t {
				return fmt.Sprintf("aes-cbc-%d", bits), info
			}
		}
	case "integ":
		t, _ := v.(integ.INTEGType)
		if t == nil {
			return "unsupported", info
		}
		info["keylen"] = t.GetKeyLength()
		info["outlen"] = t.GetOutputLength()
		for s, n := range integNames {
			if integ.StrToType(n) == t {
				return s, info
			}
		}
	case "integk":
		t, _ := v.(integ.INTEGKType)
		if t == nil {
			return "unsupported", info
		}
		info["keylen"] = t.GetKeyLength()
		for s, n := range integNames {
			if integ.StrToKType(n) == t {
				return s, info
			}
		}
	case "prf":
		t, _ := v.(prf.PRFType)
		if t == nil {
			return "unsupported", info
		}
		info["keylen"] = t.GetKeyLength()
		info["outlen"] = t.GetOutputLength()
		for s, n := range prfNames {
			if prf.StrToType(n) == t {
				return s, info
			}
		}
	case "dh":
		t, _ := v.(dh.DHType)
		if t == nil {
			return "unsupported", info
		}
		for g, n := range dhNames {
			if dh.StrToType(n) == t {
				return fmt.Sprintf("modp-%d", g), info
			}
		}
	}
	return "unknown-object", info
}

func byName(kind, name string) any {
	switch kind {
	case "encr":
		for bits, n := range encrNames {
			if name == fmt.Sprintf("aes-cbc-%d", bits) {
				return encr.StrToType(n)
			}
		}
	case "encrk":
		for bits, n := range encrNames {
			if name == fmt.Sprintf("aes-cbc-%d", bits) {
				return encr.StrToKType(n)
			}
		}
	case "integ":
		return integ.StrToType(integNames[name])
	case "integk":
		return integ.StrToKType(integNames[name])
	case "prf":
		return prf.StrToType(prfNames[name])
	case "dh":
		for g, n := range dhNames {
			if name == fmt.Sprintf("modp-%d", g) {
				return dh.StrToType(n)
			}
		}
	}
	return nil
}

func projOneTransform(t *message.Transform) J {
	l := projTransforms(int(t.TransformType), message.TransformContainer{t}, nil)
	return l[0].(J)
}

var (
	handedMu  sync.Mutex
	handedOut = map[*message.Transform]bool{}
)

func actAlgToTransform(e *Env, a J) J {
	kind, name := gs(a, "kind"), gs(a, "name")
	var t *message.Transform
	var err error
	info := J{}
	if kind == "esn" {
		x, err2 := esn.StrToType(map[string]string{"esn-on": esn.String_ESN_ENABLE, "esn-off": esn.String_ESN_DISABLE}[name])
		if err2 != nil {
			return J{"err": true, "errmsg": err2.Error()}
		}
		t = esn.ToTransform(x)
	} else {
		v := byName(kind, name)
		if v == nil {
			return J{"err": true, "errmsg": "algorithm not advertised under that name"}
		}
		_, info = algName(kind, v)
		switch kind {
		case "encr":
			t, err = encr.ToTransform(v.(encr.ENCRType))
		case "encrk":
			t, err = encr.ToTransformChildSA(v.(encr.ENCRKType))
		case "integ":
			t = integ.ToTransform(v.(integ.INTEGType))
		case "integk":
			t = integ.ToTransformChildSA(v.(integ.INTEGKType))
		case "prf":
			t = prf.ToTransform(v.(prf.PRFType))
		case "dh":
			t = dh.ToTransform(v.(dh.DHType))
		}
	}
	obs := errObs(err)
	if err == nil && t != nil {
		obs["tr"] = projOneTransform(t)
		for k, x := range info {
			obs[k] = x
		}
		// the transform is the caller's now (it goes into a proposal the caller may edit): changing it, then asking for the
		// same algorithm again, gives the same transform as the first time
		first := digest(obs["tr"])
		// (a transform object that was handed out before -- to anyone -- is not edited again: its first owner may be using it)
		handedMu.Lock()
		seen := handedOut[t]
		handedOut[t] = true
		handedMu.Unlock()
		if seen {
			obs["fresh"] = false
			return obs
		}
		t.TransformID ^= 0x5a5a
		t.AttributePresent = !t.AttributePresent
		t.AttributeType, t.AttributeValue = 0x7777, 0x3333
		t.VariableLengthAttributeValue = append(t.VariableLengthAttributeValue, 0xee)
		a2 := J{}
		for k, x := range a {
			a2[k] = x
		}
		a2["noedit"] = true
		if !gb(a, "noedit") {
			o2 := actAlgToTransform(e, a2)
			obs["fresh"] = digest(o2["tr"]) == first
		}
	}
	return obs
}

func actTransformToAlg(e *Env, a J) J {
	kind := gs(a, "kind")
	if _, ok := a["sawire"]; ok {
		// an SA payload body as it arrived (any number of attributes per transform, several transforms / proposals): the idx-th
		// transform of type tt in proposal prop, as the decoder filed it
		sa2 := new(message.SecurityAssociation)
		if err := sa2.Unmarshal(gox(a, "sawire")); err != nil {
			return J{"wireerr": true, "alg": "unsupported"}
		}
		pi, tt, idx := gi(a, "prop"), gi(a, "tt"), gi(a, "idx")
		if pi > len(sa2.Proposals) {
			return J{"wireerr": true, "alg": "unsupported"}
		}
		p := sa2.Proposals[pi-1]
		all := [][]*message.Transform{p.EncryptionAlgorithm, p.PseudorandomFunction, p.IntegrityAlgorithm, p.DiffieHellmanGroup, p.ExtendedSequenceNumbers}
		if tt < 1 || tt > 5 || idx > len(all[tt-1]) {
			return J{"wireerr": true, "alg": "unsupported"}
		}
		return transformToAlgObs(kind, all[tt-1][idx-1])
	}
	tj := gj(a, "tr")
	t := buildTransform(tj)
	if gb(a, "wire") {
		c := gi(tj, "c")
		if c == 0 {
			c = gi(tj, "tt")
		}
		pj := J{"num": 1, "proto": 1, "spi": Oct{}, "tr": []any{tj}}
		pl, err := buildPayload(J{"k": "SA", "props": []any{pj}})
		if err != nil {
			return J{"infra": err.Error()}
		}
		b, err := pl.Marshal()
		if err != nil {
			return J{"wireerr": true, "alg": "unsupported"}
		}
		sa2 := new(message.SecurityAssociation)
		if err := sa2.Unmarshal(b); err != nil {
			return J{"wireerr": true, "alg": "unsupported"}
		}
		p := sa2.Proposals[0]
		all := [][]*message.Transform{p.EncryptionAlgorithm, p.PseudorandomFunction, p.IntegrityAlgorithm, p.DiffieHellmanGroup, p.ExtendedSequenceNumbers}
		t = nil
		for _, l := range all {
			if len(l) > 0 {
				t = l[0]
			}
		}
		if t == nil {
			return J{"wireerr": true, "alg": "unsupported"}
		}
	}
	return transformToAlgObs(kind, t)
}

func transformToAlgObs(kind string, t *message.Transform) J {
	obs := J{}
	switch kind {
	case "encr":
		n, info := algName(kind, encr.DecodeTransform(t))
		obs["alg"] = n
		copyInfo(obs, info)
	case "encrk":
		n, info := algName(kind, encr.DecodeTransformChildSA(t))
		obs["alg"] = n
		copyInfo(obs, info)
	case "integ":
		n, info := algName(kind, integ.DecodeTransform(t))
		obs["alg"] = n
		copyInfo(obs, info)
	case "integk":
		n, info := algName(kind, integ.DecodeTransformChildSA(t))
		obs["alg"] = n
		copyInfo(obs, info)
	case "prf":
		n, info := algName(kind, prf.DecodeTransform(t))
		obs["alg"] = n
		copyInfo(obs, info)
	case "dh":
		n, info := algName(kind, dh.DecodeTransform(t))
		obs["alg"] = n
		copyInfo(obs, info)
	case "esn":
		x, err := esn.DecodeTransform(t)
		if err != nil {
			obs["alg"] = "unsupported"
		} else if x.GetNeedESN() {
			obs["alg"] = "esn-on"
		} else {
			obs["alg"] = "esn-off"
		}
	default:
		return J{"infra": "transform_to_alg kind " + kind}
	}
	return obs
}

func copyInfo(dst, src J) {
	for k, v := range src {
		dst[k] = v
	}
}

// proposal_roundtrip: a single-choice proposal (D-form) is handed to NewIKESAKey (kind "ike") or NewChildSAKeyByProposal
// (kind "child"); the algorithms of the resulting SA and the proposal it re-advertises are observed.
func actProposalRoundtrip(e *Env, a J) J {
	pj := gj(a, "prop")
	pl, err := buildPayload(J{"k": "SA", "props": []any{pj}})
	if err != nil {
		return J{"infra": err.Error()}
	}
	prop := pl.(*message.SecurityAssociation).Proposals[0]
	if gb(a, "scratch") {
		// the caller assembles its proposals in five scratch transform lists it keeps for the whole run: Reset, BuildTransform the
		// choices of THIS proposal, hand the lists to the proposal -- and, before the proposal is used, Reset the scratch lists and
		// assemble the NEXT negotiation's (other) choices in them.  The proposal still holds what it was given.
		sc, _ := e.objs["scratchlists"].(*[5]message.TransformContainer)
		if sc == nil {
			sc = new([5]message.TransformContainer)
			e.objs["scratchlists"] = sc
		}
		lists := [5]*message.TransformContainer{&prop.EncryptionAlgorithm, &prop.PseudorandomFunction, &prop.IntegrityAlgorithm, &prop.DiffieHellmanGroup, &prop.ExtendedSequenceNumbers}
		build := func(c *message.TransformContainer, t *message.Transform, other bool) {
			id, at, av := t.TransformID, t.AttributeType, t.AttributeValue
			if other { // another supported choice of the same type where there is one
				switch t.TransformType {
				case 1:
					av = map[uint16]uint16{128: 256, 192: 128, 256: 192}[av]
				case 2:
					id = map[uint16]uint16{1: 5, 2: 1, 5: 2}[id]
				case 3:
					id = map[uint16]uint16{1: 12, 2: 1, 12: 2}[id]
				case 4:
					id = map[uint16]uint16{2: 14, 14: 2}[id]
				case 5:
					id = 1 - id%2
				}
			}
			if t.AttributePresent && t.AttributeFormat == 1 {
				c.BuildTransform(t.TransformType, id, &at, &av, nil)
			} else if t.AttributePresent {
				c.BuildTransform(t.TransformType, id, &at, nil, t.VariableLengthAttributeValue)
			} else {
				c.BuildTransform(t.TransformType, id, nil, nil, nil)
			}
		}
		orig := [5]message.TransformContainer{}
		for q, l := range lists {
			orig[q] = *l
			sc[q].Reset()
			for _, t := range orig[q] {
				build(&sc[q], t, false)
			}
			if len(orig[q]) > 0 {
				*l = sc[q]
			}
		}
		for q := range lists {
			sc[q].Reset()
			for _, t := range orig[q] {
				build(&sc[q], t, true)
			}
		}
	}
	if gb(a, "wire") {
		b, err := pl.Marshal()
		if err != nil {
			return J{"infra": "marshal: " + err.Error()}
		}
		sa2 := new(message.SecurityAssociation)
		if err := sa2.Unmarshal(b); err != nil {
			return J{"infra": "unmarshal: " + err.Error()}
		}
		prop = sa2.Proposals[0]
	}
	obs := J{}
	var back *message.Proposal
	// the proposal is the caller's (it came off the wire, it will be answered): building an SA from it reads it.  It is rendered
	// before use, as a caller that logs what it received does.
	projProp := func(p *message.Proposal) string {
		trs := []any{}
		trs = projTransforms(1, p.EncryptionAlgorithm, trs)
		trs = projTransforms(2, p.PseudorandomFunction, trs)
		trs = projTransforms(3, p.IntegrityAlgorithm, trs)
		trs = projTransforms(4, p.DiffieHellmanGroup, trs)
		trs = projTransforms(5, p.ExtendedSequenceNumbers, trs)
		return digest(J{"num": int(p.ProposalNumber), "proto": int(p.ProtocolID), "spi": octOf(p.SPI), "tr": trs})
	}
	func() {
		defer func() { _ = recover() }()
		_ = fmt.Sprintf("%v %+v", prop, prop)
		for _, c := range []message.TransformContainer{prop.EncryptionAlgorithm, prop.PseudorandomFunction, prop.IntegrityAlgorithm, prop.DiffieHellmanGroup, prop.ExtendedSequenceNumbers} {
			for _, t := range c {
				_ = fmt.Sprintf("%v %s", t, fmt.Sprint(t))
			}
		}
	}()
	propBefore := projProp(prop)
	defer func() {
		obs["propsame"] = projProp(prop) == propBefore
	}()
	if gs(a, "kind") == "ike" {
		var k *security.IKESAKey
		k, _, err = security.NewIKESAKey(prop, fillPattern("seeded", 256, 3), fillPattern("seeded", 32, 4), 1, 2)
		obs = errObs(err)
		if err != nil { // refused: refused again when asked again (the verdict is a function of the proposal)
			_, _, err2 := security.NewIKESAKey(prop, fillPattern("seeded", 256, 3), fillPattern("seeded", 32, 4), 1, 2)
			obs["againerr"] = err2 != nil
		}
		if err == nil {
			obs["encr"], _ = algName("encr", k.EncrInfo)
			obs["integ"], _ = algName("integ", k.IntegInfo)
			obs["prf"], _ = algName("prf", k.PrfInfo)
			obs["dh"], _ = algName("dh", k.DhInfo)
			back, err = k.ToProposal()
			// the same SA object advertises again after its encryption algorithm was changed to another key size: the
			// second proposal tells the new size (what an object advertises is a function of what it holds now)
			if alt := gi(a, "alt"); alt != 0 && err == nil {
				if t := encr.StrToType(encrNames[alt]); t != nil {
					old := k.EncrInfo
					k.EncrInfo = t
					if b2, err2 := k.ToProposal(); err2 == nil && b2 != nil {
						trs2 := []any{}
						trs2 = projTransforms(1, b2.EncryptionAlgorithm, trs2)
						trs2 = projTransforms(2, b2.PseudorandomFunction, trs2)
						trs2 = projTransforms(3, b2.IntegrityAlgorithm, trs2)
						trs2 = projTransforms(4, b2.DiffieHellmanGroup, trs2)
						obs["back2"] = trs2
					} else {
						obs["back2"] = "error"
					}
					k.EncrInfo = old
					back, err = k.ToProposal()
				}
			}
		}
	} else {
		var c *security.ChildSAKey
		c, err = security.NewChildSAKeyByProposal(prop)
		obs = errObs(err)
		if err != nil {
			_, err2 := security.NewChildSAKeyByProposal(prop)
			obs["againerr"] = err2 != nil
		}
		if err == nil {
			obs["encr"], _ = algName("encrk", c.EncrKInfo)
			if c.IntegKInfo != nil {
				obs["integ"], _ = algName("integk", c.IntegKInfo)
			} else {
				obs["integ"] = "none"
			}
			if c.DhInfo != nil {
				obs["dh"], _ = algName("dh", c.DhInfo)
			} else {
				obs["dh"] = "none"
			}
			if c.EsnInfo.GetNeedESN() {
				obs["esn"] = "esn-on"
			} else {
				obs["esn"] = "esn-off"
			}
			back, err = c.ToProposal()
		}
	}
	if err == nil && back != nil {
		trs := []any{}
		trs = projTransforms(1, back.EncryptionAlgorithm, trs)
		trs = projTransforms(2, back.PseudorandomFunction, trs)
		trs = projTransforms(3, back.IntegrityAlgorithm, trs)
		trs = projTransforms(4, back.DiffieHellmanGroup, trs)
		trs = projTransforms(5, back.ExtendedSequenceNumbers, trs)
		obs["back"] = trs
		obs["backproto"] = int(back.ProtocolID)
		// the caller adds one more choice to every list of the advertised proposal (a second group, a second key size ...):
		// what the other lists advertise stays what it was
		n1, n2, n3, n4, n5 := len(back.EncryptionAlgorithm), len(back.PseudorandomFunction), len(back.IntegrityAlgorithm), len(back.DiffieHellmanGroup), len(back.ExtendedSequenceNumbers)
		extra := func(tt uint8) *message.Transform {
			return &message.Transform{TransformType: tt, TransformID: 60000 + uint16(tt)}
		}
		back.DiffieHellmanGroup = append(back.DiffieHellmanGroup, extra(4))
		back.EncryptionAlgorithm = append(back.EncryptionAlgorithm, extra(1))
		back.IntegrityAlgorithm = append(back.IntegrityAlgorithm, extra(3))
		back.PseudorandomFunction = append(back.PseudorandomFunction, extra(2))
		back.ExtendedSequenceNumbers = append(back.ExtendedSequenceNumbers, extra(5))
		after := []any{}
		after = projTransforms(1, back.EncryptionAlgorithm[:n1], after)
		after = projTransforms(2, back.PseudorandomFunction[:n2], after)
		after = projTransforms(3, back.IntegrityAlgorithm[:n3], after)
		after = projTransforms(4, back.DiffieHellmanGroup[:n4], after)
		after = projTransforms(5, back.ExtendedSequenceNumbers[:n5], after)
		obs["appendsafe"] = eqJ(after, trs) && eqJ(trs, after)
	}
	return obs
}
