package main

// Acts of SALife.tla: IKE SA key derivation, Child SA derivation, Diffie-Hellman, transform mapping.

import (
	"github.com/free5gc/ike/security"
	"github.com/free5gc/ike/security/encr"
	"github.com/free5gc/ike/security/integ"
)

func init() {
	acts["derive_child"] = actDeriveChild
}

// derive_child: GenerateKeyForChildSA on a fresh ChildSAKey from the (long-lived) IKE SA object `sa`
func actDeriveChild(e *Env, a J) J {
	o := getSA(e, a)
	if o == nil {
		return J{"infra": "derive_child: unknown SA"}
	}
	c := new(security.ChildSAKey)
	c.EncrKInfo = encr.StrToKType(encrNames[gi(a, "encr")])
	if n := gs(a, "integ"); n != "" && n != "none" {
		c.IntegKInfo = integ.StrToKType(integNames[n])
		if c.IntegKInfo == nil {
			return J{"infra": "derive_child: integ " + n}
		}
	}
	if c.EncrKInfo == nil {
		return J{"infra": "derive_child: encr"}
	}
	err := c.GenerateKeyForChildSA(o.key, nilIfEmpty(gox(a, "nonce")))
	obs := errObs(err)
	if err == nil {
		obs["ei"] = octOf(c.InitiatorToResponderEncryptionKey)
		obs["ai"] = octOf(c.InitiatorToResponderIntegrityKey)
		obs["er"] = octOf(c.ResponderToInitiatorEncryptionKey)
		obs["ar"] = octOf(c.ResponderToInitiatorIntegrityKey)
	}
	return obs
}
