package main

// Generic vector replayer (DESIGN.md 4.2).  A vector is a behaviour printed by TLC: a sequence of steps
// {act, args, expect}.  The replayer performs each act on the real library, projects what it observed
// and compares it with the expectation the specification computed.  It contains no protocol knowledge:
// a term evaluator, a projector and a comparator.  Every step is also written to a trace (ndjson) that
// the trace specifications validate (T direction).

import (
	"bufio"
	"bytes"
	"encoding/json"
	"fmt"
	"io"
	"os"
	"runtime"
	"runtime/debug"
	"sort"
	"strings"
	"sync"
	"sync/atomic"
	"time"
)

type Step struct {
	Act    string `json:"act"`
	Prop   string `json:"prop"`
	Soft   bool   `json:"soft"` // a mismatch is not a verdict by itself: the trace validation decides
	Opt    bool   `json:"opt"`  // the step is skipped (with the rest of the behaviour) when an observation it refers to does not exist
	Args   J      `json:"args"`
	Expect J      `json:"expect"`
}

type Def struct {
	N string `json:"n"`
	T any    `json:"t"`
}

type Vector struct {
	Fam   string `json:"fam"`
	ID    string `json:"id"`
	Defs  []Def  `json:"defs"`
	Steps []Step `json:"steps"`
}

type Failure struct {
	Vid   string `json:"vid"`
	Step  int    `json:"step"`
	Act   string `json:"act"`
	Prop  string `json:"prop"`
	Key   string `json:"key"`
	Got   string `json:"got"`
	Want  string `json:"want"`
	Soft  bool   `json:"soft"`
	Sig   string `json:"sig,omitempty"` // site signature reported by the act (for known findings)
	Infra string `json:"infra,omitempty"`
}

type actFn func(e *Env, args J) J

var acts = map[string]actFn{}

// randMu: acts that interpose on crypto/rand.Reader take the write lock, all others the read lock.
var randMu sync.RWMutex
var exclusiveActs = map[string]bool{}

func short(v any) string {
	b, err := json.Marshal(v)
	if err != nil {
		return fmt.Sprintf("%v", v)
	}
	if len(b) > 600 {
		return string(b[:600]) + fmt.Sprintf("...(%d bytes)", len(b))
	}
	return string(b)
}

var watchdog = 20 * time.Second

// hangs counts calls that did not return; a hung goroutine keeps spinning, so after a few of them no new vectors are
// started (the hangs recorded so far are reported)
var hangs int32

// runAct performs one act under recover and a watchdog.
func runAct(e *Env, st Step, args J) (obs J) {
	fn, ok := acts[st.Act]
	if !ok {
		return J{"infra": "unknown act " + st.Act}
	}
	done := make(chan J, 1)
	go func() {
		defer func() {
			if r := recover(); r != nil {
				done <- J{"panic": true, "panicmsg": fmt.Sprintf("%v", r), "stack": string(debug.Stack())}
			}
		}()
		if exclusiveActs[st.Act] {
			randMu.Lock()
			defer randMu.Unlock()
		} else {
			randMu.RLock()
			defer randMu.RUnlock()
		}
		o := fn(e, args)
		if _, has := o["panic"]; !has {
			o["panic"] = false
		}
		done <- o
	}()
	select {
	case o := <-done:
		return o
	case <-time.After(watchdog):
	}
	// not back after the watchdog period.  On an oversubscribed machine a call can simply be starved: before calling it a
	// hang, wait on -- as long as the load average says that more is runnable than there are processors (a call that loops
	// for ever is still not back after that)
	for waited := 0; waited < 12 && overloaded(); waited++ {
		select {
		case o := <-done:
			return o
		case <-time.After(watchdog):
		}
	}
	select {
	case o := <-done:
		return o
	default:
	}
	atomic.AddInt32(&hangs, 1)
	return J{"panic": false, "hang": true}
}

// overloaded: the 1-minute load average exceeds the number of processors
func overloaded() bool {
	b, err := os.ReadFile("/proc/loadavg")
	if err != nil {
		return false
	}
	var l1 float64
	if _, err := fmt.Sscanf(string(b), "%f", &l1); err != nil {
		return false
	}
	return l1 > float64(runtime.NumCPU())
}

type VecResult struct {
	Failures []Failure
	Events   []J
	Steps    int
	Infra    int
}

func runVector(v *Vector, seed int64, wantTrace bool) VecResult {
	var res VecResult
	e := newEnv(seed)
	for _, d := range v.Defs {
		e.raw[d.N] = d.T
	}
	hardSoFar := func() bool {
		for _, f := range res.Failures {
			if f.Infra == "" && !f.Soft {
				return true
			}
		}
		return false
	}
	for i, st := range v.Steps {
		res.Steps++
		argsAny, err := e.evalTree(st.Args)
		if err != nil && st.Opt {
			return res
		}
		if err != nil {
			if hardSoFar() { // a consequence of the failure already recorded for this behaviour, not an infrastructure error
				// ... and a failure of this step's own property too, if that is another one: what the step was to show (a round trip,
				// an acceptance by the peer) cannot happen, because the call that was to produce its input failed
				var f0 *Failure
				mine := false
				for k := range res.Failures {
					f := &res.Failures[k]
					if f.Infra == "" && !f.Soft {
						if f0 == nil {
							f0 = f
						}
						if f.Prop == st.Prop {
							mine = true
						}
					}
				}
				if f0 != nil && !mine && st.Prop != "" {
					res.Failures = append(res.Failures, Failure{Vid: v.ID, Step: i + 1, Act: st.Act, Prop: st.Prop, Key: "needs",
						Got:  fmt.Sprintf("cannot be made: it needs a result of step %d (%s), which failed (%s: got %s, want %s)", f0.Step, f0.Act, f0.Key, clip(f0.Got), clip(f0.Want)),
						Want: "the earlier call delivers what this step works on", Sig: "needs:" + f0.Act + ":" + f0.Key})
				}
				return res
			}
			res.Infra++
			res.Failures = append(res.Failures, Failure{Vid: v.ID, Step: i + 1, Act: st.Act, Infra: "args: " + err.Error()})
			return res
		}
		args, _ := argsAny.(J)
		if args == nil {
			args = J{}
		}
		obs := runAct(e, st, e.present(st.Act, args, false))
		if which := e.inputsWritten(st.Act, args); which != "" {
			res.Failures = append(res.Failures, Failure{Vid: v.ID, Step: i + 1, Act: st.Act, Prop: st.Prop, Key: "inputs", Got: "the call changed the caller's input buffer (" + which + ")",
				Want: "inputs unchanged", Sig: "inputs-written@" + which})
		}
		e.scribble(st.Act)
		e.obs = append(e.obs, obs)
		if msg, bad := obs["infra"]; bad {
			if hardSoFar() { // a consequence of the failure already recorded for this behaviour, not an infrastructure error
				return res
			}
			res.Infra++
			res.Failures = append(res.Failures, Failure{Vid: v.ID, Step: i + 1, Act: st.Act, Infra: fmt.Sprint(msg)})
			return res
		}
		expAny, err := e.evalTree(st.Expect)
		if err != nil {
			if hardSoFar() { // a consequence of the failure already recorded for this behaviour, not an infrastructure error
				return res
			}
			// the expectation refers to what this very call was to deliver (the public value it returns, ...) and the call
			// failed although the behaviour says it succeeds: that is the finding
			if st.Expect["err"] == false && obs["err"] == true {
				msg, _ := obs["errmsg"].(string)
				res.Failures = append(res.Failures, Failure{Vid: v.ID, Step: i + 1, Act: st.Act, Prop: st.Prop, Key: "err", Got: "true", Want: "false", Sig: "err@" + normMsg(msg)})
				return res
			}
			res.Infra++
			res.Failures = append(res.Failures, Failure{Vid: v.ID, Step: i + 1, Act: st.Act, Infra: "expect: " + err.Error()})
			return res
		}
		exp, _ := expAny.(J)
		keys := make([]string, 0, len(exp))
		for k := range exp {
			keys = append(keys, k)
		}
		sort.Strings(keys)
		sig, _ := obs["sig"].(string)
		site, _ := args["site"].(string) // the generation side may name the class of a step; it becomes part of failure signatures
		if hang, _ := obs["hang"].(bool); hang {
			res.Failures = append(res.Failures, Failure{Vid: v.ID, Step: i + 1, Act: st.Act, Prop: st.Prop, Key: "hang", Got: "no return within watchdog", Want: "return", Sig: sig})
		}
		if nn, _ := obs["neither"].(bool); nn {
			res.Failures = append(res.Failures, Failure{Vid: v.ID, Step: i + 1, Act: st.Act, Prop: st.Prop, Key: "neither", Got: "neither a value nor an error", Want: "value or error", Sig: "neither"})
		}
		if bb, _ := obs["both"].(bool); bb {
			res.Failures = append(res.Failures, Failure{Vid: v.ID, Step: i + 1, Act: st.Act, Prop: st.Prop, Key: "both", Got: "a value together with an error", Want: "either a value or an error", Sig: "both"})
		}
		if hd, ok := obs["hdrdiff"].(string); ok {
			res.Failures = append(res.Failures, Failure{Vid: v.ID, Step: i + 1, Act: st.Act, Prop: st.Prop, Key: "hdrdiff", Got: "outcome depends on where the pre-parsed header came from (" + hd + ")", Want: "same outcome", Sig: "hdrdiff@" + hd})
		}
		if pan, _ := obs["panic"].(bool); pan {
			if want, has := exp["panic"]; has && want == false {
				keys = []string{"panic"} // a crash hides every other expectation of the step
			}
		}
		if ge, _ := obs["err"].(bool); ge {
			if want, has := exp["err"]; has && want == false && len(keys) > 0 && keys[0] != "panic" {
				keys = []string{"err"} // an unexpected error hides the value expectations of the step
				if em, ok := obs["errmsg"].(string); ok && sig == "" {
					sig = "err@" + normMsg(em)
				}
			}
		}
		if sig == "" {
			if st, ok := obs["stack"].(string); ok {
				sig = "panic@" + panicSite(st)
			}
		}
		for _, k := range keys {
			if !eqJ(obs[k], exp[k]) {
				f := Failure{Vid: v.ID, Step: i + 1, Act: st.Act, Prop: st.Prop, Key: k, Got: short(obs[k]), Want: short(exp[k]), Soft: st.Soft && k != "panic" && k != "junkok" && k != "err", Sig: sig}
				if k == "panic" {
					f.Got = short(J{"panic": obs["panic"], "msg": obs["panicmsg"]})
				} else if f.Sig == "" {
					f.Sig = "diff@" + diffPath(obs[k], exp[k], k)
				}
				if site != "" {
					f.Sig += "#" + site
				}
				res.Failures = append(res.Failures, f)
			}
		}
		if bad := e.checkHeld(); bad != "" {
			res.Failures = append(res.Failures, Failure{Vid: v.ID, Step: i + 1, Act: st.Act, Prop: st.Prop, Key: "held", Got: "an octet string handed out earlier (" + bad + ") changed during this step",
				Want: "unchanged", Sig: "held@" + bad})
		}
		// pure functions once more, on the twin copy of the inputs that lay behind the parameters during the first call
		_, onObject := args["obj"] // a step on a NAMED long-lived object is an event in that object's history: it is not repeated
		if twinActs[st.Act] && !st.Soft && e.twins[st.Act] != nil && !onObject {
			obs3 := runAct(e, st, e.twins[st.Act])
			e.scribbleTwin(st.Act)
			if h3, _ := obs3["hang"].(bool); h3 {
				res.Failures = append(res.Failures, Failure{Vid: v.ID, Step: i + 1, Act: st.Act, Prop: st.Prop, Key: "hang", Got: "no return within watchdog (repetition on the twin inputs)", Want: "return", Sig: sig})
				keys = nil
			}
			for _, k := range keys {
				if k == "hang" || k == "repeat" {
					continue
				}
				if !eqJ(obs3[k], exp[k]) && eqJ(obs[k], exp[k]) {
					res.Failures = append(res.Failures, Failure{Vid: v.ID, Step: i + 1, Act: st.Act, Prop: st.Prop, Key: k, Got: short(obs3[k]), Want: short(exp[k]), Sig: "twin@" + k})
				}
			}
		}
		// an absent octet string may reach the library as nil or as an empty non-nil slice: same expectations either way
		if hasEmptyInput(st.Act, args) && !st.Soft && !onObject {
			obs2 := runAct(e, st, e.present(st.Act, args, true))
			e.scribble(st.Act)
			if h2, _ := obs2["hang"].(bool); h2 {
				res.Failures = append(res.Failures, Failure{Vid: v.ID, Step: i + 1, Act: st.Act, Prop: st.Prop, Key: "hang", Got: "no return within watchdog (repetition with nil for empty)", Want: "return", Sig: sig})
				keys = nil
			}
			for _, k := range keys {
				if k == "hang" || k == "ivrepeat" || k == "repeat" { // freshness across calls is not a matter of this repetition
					continue
				}
				if !eqJ(obs2[k], exp[k]) && eqJ(obs[k], exp[k]) {
					res.Failures = append(res.Failures, Failure{Vid: v.ID, Step: i + 1, Act: st.Act, Prop: st.Prop, Key: k, Got: short(obs2[k]), Want: short(exp[k]),
						Sig: "nil-vs-empty@" + k})
				}
			}
		}
		if wantTrace {
			ev := J{"vid": v.ID, "i": i + 1, "ev": st.Act, "prop": st.Prop, "args": args, "obs": stripBig(obs)}
			res.Events = append(res.Events, ev)
		}
	}
	return res
}

// stripBig drops diagnostic-only fields from an observation before it is logged.
func stripBig(o J) J {
	out := J{}
	for k, v := range o {
		if k == "stack" {
			continue
		}
		out[k] = v
	}
	return out
}

type Summary struct {
	Vectors   int            `json:"vectors"`
	Steps     int            `json:"steps"`
	Distinct  int            `json:"distinct_vectors"`
	Infra     int            `json:"infra"`
	Hard      int            `json:"hard_failures"`
	SoftN     int            `json:"soft_mismatches"`
	ByProp    map[string]int `json:"hard_by_prop"`
	StepsBy   map[string]int `json:"steps_by_prop"`
	Failures  []Failure      `json:"failures"`
	Samples   []any          `json:"samples"`
	Events    int            `json:"events"`
	WallS     float64        `json:"wall_s"`
	ActCounts map[string]int `json:"act_counts"`
	SigCounts map[string]int `json:"sig_counts"`
}

// -fams / -perfam: a pass over selected vector families only (the single-processor pass of bin/check: with one P every
// sync.Pool has one slot, so an object a failed call put back tainted is the one the next call gets)
var (
	famFilter []string
	famCap    int
	famKept   = map[string]int{}
	famSeen   = map[string]int{}
)

func famWanted(line []byte) bool {
	if famFilter == nil {
		return true
	}
	i := bytes.Index(line, []byte(`"fam":"`))
	if i < 0 {
		return false
	}
	rest := line[i+7:]
	j := bytes.IndexByte(rest, '"')
	if j < 0 {
		return false
	}
	fam := string(rest[:j])
	ok := false
	for _, p := range famFilter {
		if strings.HasPrefix(fam, p) {
			ok = true
		}
	}
	if !ok {
		return false
	}
	famSeen[fam]++
	if famCap > 0 {
		// the first half of the allowance goes to the first vectors of the family, the rest is spread over what follows
		if famKept[fam] >= famCap || (famKept[fam] >= famCap/2 && famSeen[fam]%41 != 0) {
			return false
		}
	}
	famKept[fam]++
	return true
}

func replayMain(in io.Reader, tracePath, outPath string, seed int64, workers int, maxFail int) int {
	t0 := time.Now()
	var traceW *bufio.Writer
	if tracePath != "" {
		f, err := os.Create(tracePath)
		if err != nil {
			fmt.Fprintln(os.Stderr, "trace:", err)
			return 2
		}
		defer f.Close()
		traceW = bufio.NewWriterSize(f, 1<<20)
		defer traceW.Flush()
	}
	sum := Summary{ByProp: map[string]int{}, StepsBy: map[string]int{}, ActCounts: map[string]int{}, SigCounts: map[string]int{}}
	seen := map[string]bool{}

	type job struct {
		v   *Vector
		raw string
	}
	jobs := make(chan job, 256)
	results := make(chan struct {
		r VecResult
		v *Vector
	}, 256)
	var wg sync.WaitGroup
	for w := 0; w < workers; w++ {
		wg.Add(1)
		go func() {
			defer wg.Done()
			for j := range jobs {
				if atomic.LoadInt32(&hangs) >= 3 {
					results <- struct {
						r VecResult
						v *Vector
					}{VecResult{}, j.v}
					continue
				}
				r := runVector(j.v, seed, traceW != nil)
				results <- struct {
					r VecResult
					v *Vector
				}{r, j.v}
			}
		}()
	}
	go func() {
		sc := bufio.NewScanner(in)
		sc.Buffer(make([]byte, 1<<20), 1<<30)
		for sc.Scan() {
			line := sc.Bytes()
			if len(line) == 0 {
				continue
			}
			if !famWanted(line) {
				continue
			}
			var v Vector
			if err := json.Unmarshal(line, &v); err != nil {
				results <- struct {
					r VecResult
					v *Vector
				}{VecResult{Infra: 1, Failures: []Failure{{Infra: "bad vector line: " + err.Error()}}}, &Vector{}}
				continue
			}
			jobs <- job{v: &v}
		}
		close(jobs)
		wg.Wait()
		close(results)
	}()
	for x := range results {
		sum.Vectors++
		if !seen[x.v.ID] {
			seen[x.v.ID] = true
			sum.Distinct++
		}
		sum.Steps += x.r.Steps
		sum.Infra += x.r.Infra
		for _, st := range x.v.Steps {
			sum.StepsBy[st.Prop]++
			sum.ActCounts[st.Act]++
		}
		for _, f := range x.r.Failures {
			if f.Infra != "" {
				if len(sum.Failures) < maxFail {
					sum.Failures = append(sum.Failures, f)
				}
				continue
			}
			if f.Soft {
				sum.SoftN++
			} else {
				sum.Hard++
				sum.ByProp[f.Prop]++
			}
			// keep a few failures of every distinct signature, so that no class is hidden by a frequent one
			key := f.Prop + "|" + f.Act + ":" + f.Key + ":" + f.Sig
			sum.SigCounts[key]++
			if sum.SigCounts[key] <= 3 && len(sum.Failures) < maxFail {
				sum.Failures = append(sum.Failures, f)
			}
		}
		if len(sum.Samples) < 3 && len(x.v.Steps) > 0 {
			var s any
			b, _ := json.Marshal(x.v)
			if len(b) < 4000 {
				json.Unmarshal(b, &s)
				sum.Samples = append(sum.Samples, s)
			}
		}
		if traceW != nil {
			for _, ev := range x.r.Events {
				b, err := json.Marshal(ev)
				if err == nil {
					traceW.Write(b)
					traceW.WriteByte('\n')
					sum.Events++
				}
			}
		}
	}
	sum.WallS = time.Since(t0).Seconds()
	b, _ := json.MarshalIndent(sum, "", " ")
	if outPath != "" {
		os.WriteFile(outPath, b, 0o644)
	} else {
		os.Stdout.Write(b)
	}
	if sum.Infra > 0 {
		return 2
	}
	if sum.Hard > 0 {
		return 1
	}
	return 0
}

// panicSite extracts the innermost frame inside the library from a stack trace: the "site" of a crash.
func panicSite(stack string) string {
	lines := splitLines(stack)
	for _, ln := range lines {
		if len(ln) > 0 && ln[0] != '\t' && containsStr(ln, "github.com/free5gc/ike") && !containsStr(ln, "verif/harness") {
			if i := indexStr(ln, "("); i > 0 {
				// keep package path + function, drop argument list
				j := lastIndexStr(ln, "(")
				if j > 0 {
					return trimPrefix(ln[:j], "github.com/free5gc/ike")
				}
			}
			return trimPrefix(ln, "github.com/free5gc/ike")
		}
	}
	return "unknown"
}

// diffPath names the first place where an observation differs from its expectation, with indices
// removed: e.g. msg.payloads[].props[].tr[].at
func diffPath(got, want any, at string) string {
	switch w := want.(type) {
	case J:
		if _, isAlt := w["oneof"]; isAlt {
			return at
		}
		g, ok := got.(J)
		if !ok {
			return at
		}
		ks := make([]string, 0, len(w))
		for k := range w {
			ks = append(ks, k)
		}
		sort.Strings(ks)
		for _, k := range ks {
			y, has := g[k]
			if !has {
				return at + "." + k + "(missing)"
			}
			if !eqJ(y, w[k]) {
				return diffPath(y, w[k], at+"."+k)
			}
		}
		if len(g) != len(w) {
			return at + "(extra keys)"
		}
		return at
	case []any:
		g, ok := got.([]any)
		if !ok {
			return at
		}
		if len(g) != len(w) {
			return at + "(len)"
		}
		for i := range w {
			if !eqJ(g[i], w[i]) {
				if _, isNum := w[i].(float64); isNum {
					return at
				}
				return diffPath(g[i], w[i], at+"[]")
			}
		}
	}
	return at
}

// normMsg turns an error text into a signature fragment: digits dropped, shortened.
func normMsg(m string) string {
	out := make([]rune, 0, len(m))
	for _, r := range m {
		if r == '\n' {
			break
		}
		if r >= '0' && r <= '9' {
			continue
		}
		if r == ' ' || r == '\n' || r == '\t' {
			r = '_'
		}
		out = append(out, r)
	}
	if len(out) > 90 {
		out = out[:90]
	}
	return string(out)
}
