package main

// Acts of the protected channel (SKChannel.tla): SA key objects built from key octets (not from the
// library's own derivation), protect / unprotect through the public entry points, spies in the public
// interface-typed fields of IKESAKey, and a replaceable random source.

import (
	"crypto/rand"
	"encoding/binary"
	"fmt"
	"hash"
	"io"
	"sync"
	"sync/atomic"
	"unsafe"

	ike "github.com/free5gc/ike"
	"github.com/free5gc/ike/message"
	"github.com/free5gc/ike/security"
	ikeCrypto "github.com/free5gc/ike/security/IKECrypto"
	"github.com/free5gc/ike/security/dh"
	"github.com/free5gc/ike/security/encr"
	"github.com/free5gc/ike/security/integ"
	"github.com/free5gc/ike/security/prf"
)

func init() {
	acts["sa_new"] = actSaNew
	acts["protect"] = actProtect
	acts["unprotect"] = actUnprotect
	exclusiveActs["protect"] = true // may interpose on crypto/rand.Reader
	acts["heap_init"] = actHeapInit
	acts["heap_decode"] = actHeapDecode
	acts["heap_scribble_in"] = actHeapScribbleIn
	acts["heap_encode"] = actHeapEncode
	acts["heap_scribble_out"] = actHeapScribbleOut
	acts["heap_protect"] = actHeapProtect
	exclusiveActs["heap_protect"] = false
	acts["heap_observe"] = actHeapObserve
	acts["heap_encode_dec"] = actHeapEncodeDec
}

// ---------------------------------------------------------------------------------------- spies

type spyLog struct {
	mu       sync.Mutex
	Events   []string
	Decrypts int
	Encrypts int
	Sums     int
	Resets   int
	Writes   int
}

func (l *spyLog) add(s string) {
	l.mu.Lock()
	l.Events = append(l.Events, s)
	l.mu.Unlock()
}

type spyHash struct {
	inner hash.Hash
	log   *spyLog
	name  string
}

func (s *spyHash) Write(p []byte) (int, error) {
	s.log.Writes++
	s.log.add(s.name + ".write")
	return s.inner.Write(p)
}
func (s *spyHash) Sum(b []byte) []byte {
	s.log.Sums++
	s.log.add(s.name + ".sum")
	return s.inner.Sum(b)
}
func (s *spyHash) Reset()         { s.log.Resets++; s.log.add(s.name + ".reset"); s.inner.Reset() }
func (s *spyHash) Size() int      { return s.inner.Size() }
func (s *spyHash) BlockSize() int { return s.inner.BlockSize() }

type spyCrypto struct {
	inner ikeCrypto.IKECrypto
	log   *spyLog
	name  string
}

func (s *spyCrypto) Encrypt(p []byte) ([]byte, error) {
	s.log.Encrypts++
	s.log.add(s.name + ".encrypt")
	return s.inner.Encrypt(p)
}
func (s *spyCrypto) Decrypt(c []byte) ([]byte, error) {
	s.log.Decrypts++
	s.log.add(s.name + ".decrypt")
	return s.inner.Decrypt(c)
}

// ---------------------------------------------------------------------------------------- SA objects

type saObj struct {
	key   *security.IKESAKey
	log   *spyLog
	keys  J
	suite J
}

var encrNames = map[int]string{128: encr.ENCR_AES_CBC_128, 192: encr.ENCR_AES_CBC_192, 256: encr.ENCR_AES_CBC_256}
var integNames = map[string]string{"md5": integ.AUTH_HMAC_MD5_96, "sha1": integ.AUTH_HMAC_SHA1_96, "sha256": integ.AUTH_HMAC_SHA2_256_128}
var prfNames = map[string]string{"md5": prf.PRF_HMAC_MD5, "sha1": prf.PRF_HMAC_SHA1, "sha256": prf.PRF_HMAC_SHA2_256}
var dhNames = map[int]string{2: dh.DH_1024_BIT_MODP, 14: dh.DH_2048_BIT_MODP}

// newSA builds an IKESAKey from key octets given by the vector: the objects are keyed by the harness through
// the algorithm types' public constructors, independent of GenerateKeyForIKESA.
var wipeCount atomic.Int32

func newSA(suite J, keys J, spy bool) (*saObj, error) {
	k := new(security.IKESAKey)
	k.EncrInfo = encr.StrToType(encrNames[gi(suite, "encr")])
	k.IntegInfo = integ.StrToType(integNames[gs(suite, "integ")])
	pn := gs(suite, "prf")
	if pn == "" {
		pn = "sha1"
	}
	k.PrfInfo = prf.StrToType(prfNames[pn])
	k.DhInfo = dh.StrToType(dhNames[14])
	if k.EncrInfo == nil || k.IntegInfo == nil || k.PrfInfo == nil {
		return nil, fmt.Errorf("suite %v not available", suite)
	}
	get := func(n string) []byte { return []byte(octOf(gox(keys, n))) }
	k.SK_d, k.SK_ai, k.SK_ar, k.SK_ei, k.SK_er, k.SK_pi, k.SK_pr = get("sk_d"), get("sk_ai"), get("sk_ar"), get("sk_ei"), get("sk_er"), get("sk_pi"), get("sk_pr")
	var err error
	// the constructors are handed scratch copies of the key material, wiped once the objects exist (a caller that clears
	// key buffers after set-up): an object is keyed with the value it was given, not with whatever the buffer holds later
	var scratch [][]byte
	tmp := func(b []byte) []byte {
		c := append([]byte{}, b...)
		scratch = append(scratch, c)
		return c
	}
	k.Prf_d = k.PrfInfo.Init(tmp(k.SK_d))
	k.Integ_i = k.IntegInfo.Init(tmp(k.SK_ai))
	k.Integ_r = k.IntegInfo.Init(tmp(k.SK_ar))
	if k.Encr_i, err = k.EncrInfo.NewCrypto(tmp(k.SK_ei)); err != nil {
		return nil, err
	}
	if k.Encr_r, err = k.EncrInfo.NewCrypto(tmp(k.SK_er)); err != nil {
		return nil, err
	}
	k.Prf_i = k.PrfInfo.Init(tmp(k.SK_pi))
	k.Prf_r = k.PrfInfo.Init(tmp(k.SK_pr))
	// (each object's buffers are wiped with another pattern: two ends keyed from wiped buffers must not agree by accident)
	wn := byte(wipeCount.Add(1))
	for j, c := range scratch {
		for i := range c {
			c[i] = 0xEE ^ wn ^ byte(j*37+i*11)
		}
	}
	if k.Integ_i == nil || k.Integ_r == nil || k.Prf_d == nil {
		return nil, fmt.Errorf("could not key the SA objects (key sizes?)")
	}
	o := &saObj{key: k, log: &spyLog{}, keys: keys, suite: suite}
	if spy {
		k.Integ_i = &spyHash{k.Integ_i, o.log, "integ_i"}
		k.Integ_r = &spyHash{k.Integ_r, o.log, "integ_r"}
		k.Prf_d = &spyHash{k.Prf_d, o.log, "prf_d"}
		k.Encr_i = &spyCrypto{k.Encr_i, o.log, "encr_i"}
		k.Encr_r = &spyCrypto{k.Encr_r, o.log, "encr_r"}
	}
	return o, nil
}

func actSaNew(e *Env, a J) J {
	o, err := newSA(gj(a, "suite"), gj(a, "keys"), !gb(a, "nospy"))
	if err != nil {
		return J{"infra": "sa_new: " + err.Error()}
	}
	e.objs["sa:"+gs(a, "name")] = o
	return J{"err": false}
}

func getSA(e *Env, a J) *saObj {
	n := gs(a, "sa")
	if n == "" || n == "none" {
		return nil
	}
	o, _ := e.objs["sa:"+n].(*saObj)
	return o
}

// ---------------------------------------------------------------------------------------- random source

type patternReader struct {
	mode string
	n    int
}

func (p *patternReader) Read(b []byte) (int, error) {
	for i := range b {
		switch p.mode {
		case "zero":
			b[i] = 0
		case "ff":
			b[i] = 0xff
		default:
			b[i] = byte(p.n)
		}
		p.n++
	}
	return len(b), nil
}

// withRand runs f with crypto/rand.Reader replaced (mode "system" leaves it alone).  Callers hold randMu.
func withRand(mode string, f func()) {
	if mode == "" || mode == "system" {
		f()
		return
	}
	old := rand.Reader
	rand.Reader = &patternReader{mode: mode}
	defer func() { rand.Reader = old }()
	f()
}

var _ io.Reader = (*patternReader)(nil)

// ---------------------------------------------------------------------------------------- protect / unprotect

func roleOf(a J) message.Role {
	if gb(a, "role") {
		return message.Role_Initiator
	}
	return message.Role_Responder
}

// senderKeys returns (SK_e, SK_a) of the direction `initiator` from the key octets the vector supplied.
func (o *saObj) dirKeys(initiator bool) (Oct, Oct) {
	if initiator {
		return octOf(gox(o.keys, "sk_ei")), octOf(gox(o.keys, "sk_ai"))
	}
	return octOf(gox(o.keys, "sk_er")), octOf(gox(o.keys, "sk_ar"))
}

var integHash = map[string]string{"md5": "md5", "sha1": "sha1", "sha256": "sha256"}
var icvLen = map[string]int{"md5": 12, "sha1": 12, "sha256": 16}

// skOracles answers, with the standard library, the two questions the trace specification asks about a protected
// datagram (DESIGN.md 4.3 echo oracles): the HMAC over a span and the textbook CBC decryption of a segment.  The
// spans are echoed so that TLC can check they are the spans the specification means.
func skOracles(o *saObj, initiator bool, wire []byte) J {
	ske, ska := o.dirKeys(initiator)
	il := icvLen[gs(o.suite, "integ")]
	out := J{"ske": ske, "ska": ska, "icvlen": il, "h": gs(o.suite, "integ")}
	n := len(wire)
	if n < 28+4+il { // no room for a checksum behind the Encrypted payload's header
		return out
	}
	env := newEnv(0)
	mac, err := env.evalTerm(J{"t": "hmac", "h": integHash[gs(o.suite, "integ")], "key": J{"t": "lit", "v": octToAny(ska)}, "data": J{"t": "lit", "v": octToAny(wire[:n-il])}})
	if err == nil {
		out["mac"] = mac
		out["mac_span"] = []any{0, n - il}
	}
	if n >= 28+4+16+16+il && (n-il-48)%16 == 0 {
		pt, err := cbcDecrypt(ske, wire[32:48], wire[48:n-il])
		if err == nil {
			out["pt"] = pt
			out["iv_span"] = []any{32, 48}
			out["ct_span"] = []any{48, n - il}
		}
	}
	return out
}

func actProtect(e *Env, a J) J {
	o := getSA(e, a)
	m, err := buildMsg(gj(a, "msg"))
	if err != nil {
		return J{"err": true, "builderr": err.Error()}
	}
	hdrBefore := J{}
	projHeader(m.IKEHeader, hdrBefore)
	orig := append(message.IKEPayloadContainer{}, m.Payloads...)
	held := m.Payloads // the caller's container variable shares storage with the message's payload list
	var key *security.IKESAKey
	if o != nil {
		key = o.key
	}
	var wire []byte
	var rr *recReader
	if spec, isRec := a["rand"].(J); isRec { // a recording / failing source: [mode, seed, failat, chunk]
		rr = readerOf(spec)
		withReader(rr, func() { wire, err = ike.EncodeEncrypt(m, key, roleOf(a)) })
	} else {
		withRand(gs(a, "rand"), func() { wire, err = ike.EncodeEncrypt(m, key, roleOf(a)) })
	}
	obs := errObs(err)
	if rr != nil {
		randObs(rr, obs)
		// a failure delivered by the random source surfaces as an error and no datagram
		obs["faultok"] = !(rr.failAt >= 0 && rr.reads > rr.failAt) || (err != nil && wire == nil)
	}
	// whatever is produced states its own sizes: header length = datagram size; with keys, the first payload is the Encrypted
	// payload and its length field = datagram size - 28 (a field that wrapped around shows here)
	obs["lenok"] = true
	if err == nil {
		obs["wire"] = octOf(wire)
		if len(wire) < 28 || int(binary.BigEndian.Uint32(wire[24:28])) != len(wire) {
			obs["lenok"] = false
		} else if o != nil && (len(wire) < 32 || int(binary.BigEndian.Uint16(wire[30:32])) != len(wire)-28) {
			obs["lenok"] = false
		}
		if o != nil {
			obs["oracle"] = skOracles(o, gb(a, "role"), wire)
		}
	}
	// protected message objects the caller still holds stay what they were while later messages are protected (C20)
	pheld, _ := e.objs["protheld"].([]*protHeld)
	same := true
	for _, ph := range pheld {
		if !eqJ(projChain(ph.m.Payloads), ph.snap) || !eqJ(ph.snap, projChain(ph.m.Payloads)) {
			same = false
			ph.snap = projChain(ph.m.Payloads)
		}
	}
	obs["protheld"] = same
	if err == nil && o != nil {
		pheld = append(pheld, &protHeld{m: m, snap: projChain(m.Payloads)})
		if len(pheld) > 64 {
			pheld = pheld[len(pheld)-64:]
		}
		e.objs["protheld"] = pheld
	}
	hdrAfter := J{}
	projHeader(m.IKEHeader, hdrAfter)
	obs["srchdr"] = hdrAfter
	obs["hdrsame"] = eqJ(hdrAfter, hdrBefore)
	obs["orig"] = projChain(orig)
	if o != nil {
		obs["held"] = projChain(held)
	}
	return obs
}

type protHeld struct {
	m    *message.IKEMessage
	snap any
}

func actUnprotect(e *Env, a J) J {
	o := getSA(e, a)
	var key *security.IKESAKey
	if o != nil {
		key = o.key
	}
	wire := gox(a, "wire")
	mode := gs(a, "hdrmode")
	res := overLayouts(wire, gb(a, "caps"), func(b []byte) J {
		var before spyLog
		if o != nil {
			before = spyLog{Decrypts: o.log.Decrypts, Sums: o.log.Sums, Encrypts: o.log.Encrypts}
		}
		var hdr *message.IKEHeader
		used := "nil"
		if mode == "pre" {
			if h, err := message.ParseHeader(b); err == nil {
				hdr = h
				used = "pre"
			}
		}
		m, err := ike.DecodeDecrypt(b, hdr, key, roleOf(a))
		obs := errObs(err)
		obs["hdrused"] = used
		obs["neither"] = err == nil && m == nil // a decoding entry point returns a value or an error
		obs["both"] = err != nil && m != nil    // ... EITHER a value OR an error: no (half-filled) message next to an error
		if o != nil {
			obs["decrypts"] = o.log.Decrypts - before.Decrypts
			obs["macs"] = o.log.Sums - before.Sums
		} else {
			obs["decrypts"] = 0
			obs["macs"] = 0
		}
		if err == nil && m != nil {
			obs["msg"] = projMsg(m)
		}
		// "whether or not the receiver pre-parsed the header": the header object may have been parsed from the 28 header
		// octets alone, or from a receive buffer the caller has reused since -- the datagram is the first argument
		if used == "pre" {
			for _, how := range []string{"hdronly", "stale", "reuse"} {
				var src []byte
				if how == "hdronly" {
					src = append([]byte{}, b[:28]...)
				} else {
					src = append([]byte{}, b...)
				}
				h2, perr := message.ParseHeader(src)
				if how == "reuse" { // the very header object the first call was given, used for the same datagram again
					h2, perr = hdr, nil
				}
				if perr != nil {
					continue
				}
				if how == "stale" {
					for i := 28; i < len(src); i++ {
						src[i] = 0xEE
					}
				}
				var o2 J
				func() {
					defer func() {
						if r := recover(); r != nil {
							o2 = J{"err": false, "panicked": true}
						}
					}()
					m2, err2 := ike.DecodeDecrypt(b, h2, key, roleOf(a))
					o2 = errObs(err2)
					if err2 == nil && m2 != nil {
						o2["msg"] = projMsg(m2)
					}
				}()
				if o2["err"] != obs["err"] || !eqJ(o2["msg"], obs["msg"]) || !eqJ(obs["msg"], o2["msg"]) || o2["panicked"] == true {
					obs["hdrdiff"] = how
				}
			}
		}
		return obs
	})
	if o != nil && !gb(a, "nooracle") {
		// which direction's keys the sender used is the peer of the receiver's role
		res["oracle"] = skOracles(o, !gb(a, "role"), wire)
	}
	return res
}

// ---------------------------------------------------------------------------------------- heap histories (C20)

type heapState struct {
	in     []byte // receive buffer
	inOrig []byte
	dmsg   *message.IKEMessage
	src    *message.IKEMessage
	orig   message.IKEPayloadContainer // the caller's own references to the payload objects of src (element-wise copy)
	held   message.IKEPayloadContainer // the caller's own container variable: the SAME slice the message was built from
	out    []byte
	sa     *saObj
	// every buffer an encode returned (the caller still holds them) with what the caller believes they contain, and
	// what the caller believes the receive buffer contains
	outs     [][]byte
	outSnaps [][]byte
	inExpect []byte
	protSnap any // the payload list of the source message right after it was protected
}

func (h *heapState) keep(w []byte) {
	h.outs = append(h.outs, w)
	h.outSnaps = append(h.outSnaps, append([]byte{}, w...))
}

// outFresh: a buffer an encode has just returned is new memory -- it shares nothing with a buffer returned earlier, which
// the caller still holds (and may have queued for sending, or written over)
func (h *heapState) outFresh(w []byte) bool {
	if cap(w) == 0 {
		return true
	}
	w = w[:cap(w)]
	lo, hi := uintptr(unsafe.Pointer(&w[0])), uintptr(unsafe.Pointer(&w[0]))+uintptr(len(w))
	for _, b := range h.outs {
		if cap(b) == 0 {
			continue
		}
		b = b[:cap(b)]
		blo, bhi := uintptr(unsafe.Pointer(&b[0])), uintptr(unsafe.Pointer(&b[0]))+uintptr(len(b))
		if lo < bhi && blo < hi {
			return false
		}
	}
	return true
}

func (h *heapState) heldSame() bool {
	for i := range h.outs {
		if string(h.outs[i]) != string(h.outSnaps[i]) {
			return false
		}
	}
	return true
}

func (h *heapState) inSame() bool { return string(h.in) == string(h.inExpect) }

func hstate(e *Env) *heapState {
	h, _ := e.objs["heap"].(*heapState)
	return h
}

func actHeapInit(e *Env, a J) J {
	src, err := buildMsg(gj(a, "msg"))
	if err != nil {
		return J{"infra": "heap_init: " + err.Error()}
	}
	w := gox(a, "wire")
	h := &heapState{in: append([]byte{}, w...), inOrig: append([]byte{}, w...), inExpect: append([]byte{}, w...), src: src}
	h.orig = append(message.IKEPayloadContainer{}, src.Payloads...)
	h.held = src.Payloads
	e.objs["heap"] = h
	return J{}
}

func actHeapDecode(e *Env, a J) J {
	h := hstate(e)
	// every decode starts from a freshly received datagram in the same (reused) buffer
	copy(h.in, h.inOrig)
	copy(h.inExpect, h.inOrig)
	var m *message.IKEMessage
	var err error
	if gs(a, "how") == "unprotect" {
		m, err = ike.DecodeDecrypt(h.in, nil, nil, message.Role_Responder)
	} else {
		m = new(message.IKEMessage)
		err = m.Decode(h.in)
	}
	o := errObs(err)
	if err == nil {
		h.dmsg = m
		o["msg"] = projMsg(m)
		// the caller appends to octet strings it decoded (Ni | Nr from the decoded nonce ...): its own slices by now
		for _, p := range m.Payloads {
			switch x := p.(type) {
			case *message.Nonce:
				_ = append(x.NonceData, 0xAA, 0xBB, 0xCC, 0xDD)
			case *message.KeyExchange:
				_ = append(x.KeyExchangeData, 0xAA, 0xBB)
			case *message.Notification:
				_ = append(x.NotificationData, 0xAA)
				_ = append(x.SPI, 0xAB)
			case *message.VendorID:
				_ = append(x.VendorIDData, 0xAC)
			case *message.IdentificationInitiator:
				_ = append(x.IDData, 0xAD)
			case *message.Authentication:
				_ = append(x.AuthenticationData, 0xAE)
			case *message.Certificate:
				_ = append(x.CertificateData, 0xAF)
			}
		}
		o["insame"] = h.inSame()
	}
	return o
}

func actHeapScribbleIn(e *Env, a J) J {
	h := hstate(e)
	for i := range h.in {
		if gi(a, "mode") == 0 {
			h.in[i] = ^h.in[i]
		} else {
			h.in[i] = byte(i * 7)
		}
	}
	copy(h.inExpect, h.in)
	return J{}
}

// heap_encode_dec: the caller builds a message from the decoded one -- same header object, a NEW container holding one more
// payload in front -- and encodes it.  The result is the reference encoding; the receive buffer and every buffer returned
// earlier are as the caller left them.
func actHeapEncodeDec(e *Env, a J) J {
	h := hstate(e)
	if h.dmsg == nil {
		return J{"infra": "heap_encode_dec before a decode"}
	}
	extra, err := buildPayload(gj(a, "extra"))
	if err != nil {
		return J{"infra": "heap_encode_dec: " + err.Error()}
	}
	m2 := &message.IKEMessage{IKEHeader: h.dmsg.IKEHeader, Payloads: append(message.IKEPayloadContainer{extra}, h.dmsg.Payloads...)}
	w, err := m2.Encode()
	o := errObs(err)
	if err == nil {
		o["wire"] = octOf(w)
		o["outfresh"] = h.outFresh(w)
		h.keep(w)
	}
	o["insame"] = h.inSame()
	o["heldsame"] = h.heldSame()
	return o
}

func actHeapEncode(e *Env, a J) J {
	h := hstate(e)
	w, err := h.src.Encode()
	o := errObs(err)
	if err == nil {
		h.out = w
		o["wire"] = octOf(w)
	}
	o["insame"] = h.inSame()
	o["heldsame"] = h.heldSame() // checked BEFORE the new buffer joins the held ones: did this call disturb an earlier result?
	if err == nil {
		o["outfresh"] = h.outFresh(w)
		h.keep(w)
	}
	o["srcafter"] = projChain(h.src.Payloads)
	// does the message reference the returned buffer?  overwrite a copy-protected probe: flip the returned buffer
	// and see whether the message (payloads or header bookkeeping) changes
	refs := false
	if err == nil && len(w) > 0 {
		before := projMsg(h.src)
		pb := octOf(h.src.IKEHeader.PayloadBytes)
		for i := range w {
			w[i] = ^w[i]
		}
		if !eqJ(projMsg(h.src), before) || string(pb) != string(h.src.IKEHeader.PayloadBytes) {
			refs = true
		}
		for i := range w {
			w[i] = ^w[i]
		}
	}
	o["refsout"] = refs
	return o
}

func actHeapScribbleOut(e *Env, a J) J {
	h := hstate(e)
	for i := range h.out {
		h.out[i] = ^h.out[i]
	}
	for i := range h.outs { // the caller knows what it wrote
		if len(h.outs[i]) > 0 && len(h.out) > 0 && &h.outs[i][0] == &h.out[0] {
			h.outSnaps[i] = append([]byte{}, h.out...)
		}
	}
	return J{}
}

func suiteByIndex(i int) J {
	encrs := []int{128, 192, 256}
	integs := []string{"md5", "sha1", "sha256"}
	return J{"encr": encrs[(i-1)%3], "integ": integs[((i-1)/3)%3], "prf": "sha1"}
}

func patternKeys(suite J, salt int) J {
	ek := gi(suite, "encr") / 8
	ik := map[string]int{"md5": 16, "sha1": 20, "sha256": 32}[gs(suite, "integ")]
	pk := map[string]int{"md5": 16, "sha1": 20, "sha256": 32}[gs(suite, "prf")]
	return J{"sk_d": fillPattern("seeded", pk, salt+1), "sk_ai": fillPattern("seeded", ik, salt+2), "sk_ar": fillPattern("seeded", ik, salt+3),
		"sk_ei": fillPattern("seeded", ek, salt+4), "sk_er": fillPattern("seeded", ek, salt+5), "sk_pi": fillPattern("seeded", pk, salt+6), "sk_pr": fillPattern("seeded", pk, salt+7)}
}

func actHeapProtect(e *Env, a J) J {
	h := hstate(e)
	suite := suiteByIndex(gi(a, "suite"))
	sa, err := newSA(suite, patternKeys(suite, 40), false)
	if err != nil {
		return J{"infra": err.Error()}
	}
	pw, err := ike.EncodeEncrypt(h.src, sa.key, roleOf(a))
	o := errObs(err)
	o["heldsame"] = h.heldSame()
	o["insame"] = h.inSame()
	if err == nil {
		o["outfresh"] = h.outFresh(pw)
		h.keep(pw)
		h.out = pw
		h.protSnap = projChain(h.src.Payloads)
		// a receiver that has no keys yet decodes the datagram as it is and keeps the message (the Encrypted payload is a payload
		// like any other); its receive buffer goes on to the next datagram: the kept message stays what it was
		rb := append([]byte{}, pw...)
		pm := new(message.IKEMessage)
		if perr := pm.Decode(rb); perr == nil {
			before := projChain(pm.Payloads)
			for i := range rb {
				rb[i] = ^rb[i]
			}
			o["skplain"] = eqJ(before, projChain(pm.Payloads)) && eqJ(projChain(pm.Payloads), before)
		} else {
			o["skplain"] = true
		}
	}
	hj := J{}
	projHeader(h.src.IKEHeader, hj)
	o["srchdr"] = hj
	o["orig"] = projChain(h.orig)
	o["held"] = projChain(h.held)
	nsk := 0
	for _, p := range h.src.Payloads {
		if p.Type() == message.TypeSK {
			nsk++
		}
	}
	if len(h.src.Payloads) != 1 {
		nsk = -len(h.src.Payloads)
	}
	o["nsk"] = nsk
	return o
}

func actHeapObserve(e *Env, a J) J {
	h := hstate(e)
	o := J{"orig": projChain(h.orig), "held": projChain(h.held), "heldsame": h.heldSame(), "insame": h.inSame()}
	// after protection the message holds the Encrypted payload; it stays what it was whatever the caller does with the
	// datagram that was returned
	o["protsame"] = h.protSnap == nil || (eqJ(projChain(h.src.Payloads), h.protSnap) && eqJ(h.protSnap, projChain(h.src.Payloads)))
	hj := J{}
	projHeader(h.src.IKEHeader, hj)
	o["srchdr"] = hj
	if h.dmsg != nil {
		o["dmsg"] = projChain(h.dmsg.Payloads)
	}
	return o
}
