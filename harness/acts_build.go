package main

// Acts of the builder state machine (Builders.tla, C19): one act per public builder call.

import (
	"fmt"

	"github.com/free5gc/ike/eap"
	"github.com/free5gc/ike/message"
)

func init() {
	acts["build"] = actBuild
	acts["encode_built"] = actEncodeBuilt
	acts["new_message"] = actNewMessage
}

type builderState struct {
	cont message.IKEPayloadContainer
	cp   *message.Configuration
	tsi  *message.TrafficSelectorInitiator
	tsr  *message.TrafficSelectorResponder
	sa   *message.SecurityAssociation
	prop *message.Proposal
	last string
	msgs []*message.IKEMessage // messages created from the container so far (they retain its payload list)
}

func bstate(e *Env) *builderState {
	if b, ok := e.objs["builder"].(*builderState); ok {
		return b
	}
	b := &builderState{}
	e.objs["builder"] = b
	return b
}

func u16p(v int) *uint16 { x := uint16(v); return &x }

func actBuild(e *Env, a J) J {
	b := bstate(e)
	c := gj(a, "call")
	fn := gs(c, "fn")
	var err error
	// octet-string arguments are the caller's buffers: each has spare capacity behind it, and all of it is overwritten once
	// the call has returned (the builders copy what they are given; a payload must not live in the caller's memory)
	var lent [][]byte
	defer func() {
		for _, b := range lent {
			b = b[:cap(b)]
			for i := range b {
				b[i] = 0xEE
			}
		}
	}()
	oct := func(k string) []byte {
		v := gox(c, k)
		if len(v) == 0 {
			return nil
		}
		buf := make([]byte, len(v), len(v)+64)
		copy(buf, v)
		lent = append(lent, buf)
		return buf
	}
	switch fn {
	case "Reset":
		b.cont.Reset()
	case "Edit":
		// the caller changes the payload the last call made, in place (Builders!EditPayload)
		if n := len(b.cont); n > 0 {
			flip := func(x []byte) {
				if len(x) > 0 {
					x[0] = 255 - x[0]
				}
			}
			switch p := b.cont[n-1].(type) {
			case *message.Notification:
				flip(p.NotificationData)
			case *message.Certificate:
				flip(p.CertificateData)
			case *message.KeyExchange:
				flip(p.KeyExchangeData)
			case *message.IdentificationInitiator:
				flip(p.IDData)
			case *message.IdentificationResponder:
				flip(p.IDData)
			case *message.Authentication:
				flip(p.AuthenticationData)
			case *message.Nonce:
				flip(p.NonceData)
			case *message.CertificateRequest:
				flip(p.CertificationAuthority)
			case *message.VendorID:
				flip(p.VendorIDData)
			case *message.PayloadEap:
				if p.EAP != nil {
					switch d := p.EAP.EapTypeData.(type) {
					case *eap.EapExpanded:
						flip(d.VendorData)
					case *eap.EapIdentity:
						flip(d.IdentityData)
					case *eap.EapNotification:
						flip(d.NotificationData)
					case *eap.EapNak:
						flip(d.NakData)
					}
				}
			}
		}
	case "Notification":
		b.cont.BuildNotification(uint8(gi(c, "proto")), uint16(gi(c, "ntype")), oct("spi"), oct("data"))
	case "Certificate":
		b.cont.BuildCertificate(uint8(gi(c, "enc")), oct("data"))
	case "Encrypted":
		b.cont.BuildEncrypted(message.IkePayloadType(gi(c, "next")), oct("data"))
	case "KeyExchange":
		b.cont.BUildKeyExchange(uint16(gi(c, "grp")), oct("data"))
	case "IdentificationInitiator":
		b.cont.BuildIdentificationInitiator(uint8(gi(c, "idt")), oct("data"))
	case "IdentificationResponder":
		b.cont.BuildIdentificationResponder(uint8(gi(c, "idt")), oct("data"))
	case "Authentication":
		b.cont.BuildAuthentication(uint8(gi(c, "meth")), oct("data"))
	case "Nonce":
		b.cont.BuildNonce(oct("data"))
	case "Configuration":
		b.cp = b.cont.BuildConfiguration(uint8(gi(c, "cft")))
	case "ConfigurationAttribute":
		b.cp.ConfigurationAttribute.BuildConfigurationAttribute(uint16(gi(c, "t")), oct("v"))
	case "TrafficSelectorInitiator":
		b.tsi = b.cont.BuildTrafficSelectorInitiator()
		b.last = "TSi"
	case "TrafficSelectorResponder":
		b.tsr = b.cont.BuildTrafficSelectorResponder()
		b.last = "TSr"
	case "IndividualTrafficSelector":
		var tc *message.IndividualTrafficSelectorContainer
		if b.last == "TSi" {
			tc = &b.tsi.TrafficSelectors
		} else {
			tc = &b.tsr.TrafficSelectors
		}
		tc.BuildIndividualTrafficSelector(uint8(gi(c, "tst")), uint8(gi(c, "proto")), uint16(gi(c, "sp")), uint16(gi(c, "ep")), oct("sa"), oct("ea"))
	case "SecurityAssociation":
		b.sa = b.cont.BuildSecurityAssociation()
	case "Proposal":
		b.prop = b.sa.Proposals.BuildProposal(uint8(gi(c, "num")), uint8(gi(c, "proto")), oct("spi"))
	case "Transform":
		var tc *message.TransformContainer
		switch gi(c, "c") {
		case 1:
			tc = &b.prop.EncryptionAlgorithm
		case 2:
			tc = &b.prop.PseudorandomFunction
		case 3:
			tc = &b.prop.IntegrityAlgorithm
		case 4:
			tc = &b.prop.DiffieHellmanGroup
		case 5:
			tc = &b.prop.ExtendedSequenceNumbers
		default:
			return J{"infra": "transform container"}
		}
		switch gs(c, "attr") {
		case "none":
			tc.BuildTransform(uint8(gi(c, "tt")), uint16(gi(c, "tid")), nil, nil, nil)
		case "tv":
			tc.BuildTransform(uint8(gi(c, "tt")), uint16(gi(c, "tid")), u16p(gi(c, "at")), u16p(gi(c, "av")), nil)
		case "tlv":
			tc.BuildTransform(uint8(gi(c, "tt")), uint16(gi(c, "tid")), u16p(gi(c, "at")), nil, oct("avl"))
		}
	case "SubReset":
		switch gs(c, "lvl") {
		case "attrs":
			b.cp.ConfigurationAttribute.Reset()
		case "sel":
			if b.last == "TSi" {
				b.tsi.TrafficSelectors.Reset()
			} else {
				b.tsr.TrafficSelectors.Reset()
			}
		case "props":
			b.sa.Proposals.Reset()
			b.prop = nil
		case "tr":
			switch gi(c, "c") {
			case 1:
				b.prop.EncryptionAlgorithm.Reset()
			case 2:
				b.prop.PseudorandomFunction.Reset()
			case 3:
				b.prop.IntegrityAlgorithm.Reset()
			case 4:
				b.prop.DiffieHellmanGroup.Reset()
			case 5:
				b.prop.ExtendedSequenceNumbers.Reset()
			}
		}
	case "DeletePayload":
		var spis []uint32
		for _, x := range gl(c, "spis") {
			o, _ := anyToOct(x)
			spis = append(spis, u32of(o))
		}
		b.cont.BuildDeletePayload(uint8(gi(c, "proto")), uint8(gi(c, "spisz")), uint16(gi(c, "num")), spis)
	case "EAP":
		b.cont.BuildEAP(eap.EapCode(gi(c, "code")), uint8(gi(c, "id")))
	case "EAPSuccess":
		b.cont.BuildEAPSuccess(uint8(gi(c, "id")))
	case "EAPfailure":
		b.cont.BuildEAPfailure(uint8(gi(c, "id")))
	case "EAPExpanded":
		pe := b.cont.BuildEAP(eap.EapCode(gi(c, "code")), uint8(gi(c, "id")))
		pe.EapTypeData = message.BuildEapExpanded(uint32(gi(c, "vid")), u32of(gox(c, "vtype")), oct("data"))
	case "EAP5GStart":
		b.cont.BuildEAP5GStart(uint8(gi(c, "id")))
	case "EAP5GNAS":
		err = b.cont.BuildEAP5GNAS(uint8(gi(c, "id")), oct("nas"))
	case "Notify5G_QOS_INFO":
		err = b.cont.BuildNotify5G_QOS_INFO(uint8(gi(c, "pdu")), oct("qfis"), gb(c, "dcsi"), gb(c, "dscpi"), uint8(gi(c, "dscp")))
	case "NotifyNAS_IP4_ADDRESS", "NotifyUP_IP4_ADDRESS":
		ip := gox(c, "ip")
		s := fmt.Sprintf("%d.%d.%d.%d", ip[0], ip[1], ip[2], ip[3])
		if fn == "NotifyNAS_IP4_ADDRESS" {
			b.cont.BuildNotifyNAS_IP4_ADDRESS(s)
		} else {
			b.cont.BuildNotifyUP_IP4_ADDRESS(s)
		}
	case "NotifyNAS_TCP_PORT":
		b.cont.BuildNotifyNAS_TCP_PORT(uint16(gi(c, "port")))
	default:
		return J{"infra": "unknown builder " + fn}
	}
	o := errObs(err)
	o["cont"] = projChain(b.cont)
	held := []any{}
	for _, m := range b.msgs {
		held = append(held, projChain(m.Payloads))
	}
	o["held"] = held
	return o
}

func actEncodeBuilt(e *Env, a J) J {
	b := bstate(e)
	w, err := b.cont.Encode()
	o := errObs(err)
	if err == nil {
		o["wire"] = octOf(w)
	}
	return o
}

func actNewMessage(e *Env, a J) J {
	b := bstate(e)
	c := gj(a, "call")
	m := message.NewMessage(u64of(gox(c, "ispi")), u64of(gox(c, "rspi")), uint8(gi(c, "xt")), gb(c, "response"), gb(c, "initiator"),
		u32of(gox(c, "mid")), b.cont)
	b.msgs = append(b.msgs, m)
	// the header constructor itself, with a next-payload value and payload octets of the caller's
	pb := []byte{0xde, 0xad, 0xbe, 0xef}
	h := message.NewHeader(u64of(gox(c, "ispi")), u64of(gox(c, "rspi")), uint8(gi(c, "xt")), gb(c, "response"), gb(c, "initiator"),
		u32of(gox(c, "mid")), uint8(gi(c, "np")), pb)
	hdr := J{"ispi": octOf(be(h.InitiatorSPI, 8)), "rspi": octOf(be(h.ResponderSPI, 8)), "maj": int(h.MajorVersion), "min": int(h.MinorVersion), "xt": int(h.ExchangeType),
		"flags": int(h.Flags), "mid": octOf(be(uint64(h.MessageID), 4)), "np": int(h.NextPayload), "pb": string(h.PayloadBytes) == "\xde\xad\xbe\xef"}
	return J{"msg": projMsg(m), "isresp": m.IsResponse(), "isinit": m.IsInitiator(), "hdr": hdr}
}
