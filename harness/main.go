package main

import (
	"flag"
	"fmt"
	"io"
	"os"
	"runtime"
	"strings"
)

func main() {
	if len(os.Args) < 2 {
		fmt.Fprintln(os.Stderr, "usage: vdrive replay|drive|race ...")
		os.Exit(2)
	}
	switch os.Args[1] {
	case "replay":
		fs := flag.NewFlagSet("replay", flag.ExitOnError)
		in := fs.String("in", "-", "vector file (ndjson) or - for stdin")
		trace := fs.String("trace", "", "trace output (ndjson)")
		out := fs.String("out", "", "summary output (json)")
		seed := fs.Int64("seed", 1, "seed")
		workers := fs.Int("workers", runtime.NumCPU(), "parallel vectors")
		maxFail := fs.Int("maxfail", 200, "failures kept in the summary")
		fams := fs.String("fams", "", "replay only vectors of these families (comma-separated prefixes)")
		perFam := fs.Int("perfam", 0, "with -fams: at most this many vectors per family")
		fs.Parse(os.Args[2:])
		var r io.Reader = os.Stdin
		if *in != "-" {
			f, err := os.Open(*in)
			if err != nil {
				fmt.Fprintln(os.Stderr, err)
				os.Exit(2)
			}
			defer f.Close()
			r = f
		}
		if *fams != "" {
			famFilter = strings.Split(*fams, ",")
			famCap = *perFam
		}
		os.Exit(replayMain(r, *trace, *out, *seed, *workers, *maxFail))
	default:
		if f, ok := commands[os.Args[1]]; ok {
			os.Exit(f(os.Args[2:]))
		}
		fmt.Fprintln(os.Stderr, "unknown command", os.Args[1])
		os.Exit(2)
	}
}

var commands = map[string]func([]string) int{}
