package main

import "strings"

func splitLines(s string) []string   { return strings.Split(s, "\n") }
func containsStr(s, sub string) bool { return strings.Contains(s, sub) }
func indexStr(s, sub string) int     { return strings.Index(s, sub) }
func lastIndexStr(s, sub string) int { return strings.LastIndex(s, sub) }
func trimPrefix(s, p string) string  { return strings.TrimPrefix(s, p) }
