// mutate: mechanical one-token mutants of the library under verification, used to measure what the checks of /verif notice
// (DESIGN.md Appendix G).  `mutate -repo DIR -list` prints one JSON object per mutant; `mutate -repo DIR -apply ID` rewrites
// the one file of mutant ID in place (DIR is a scratch worktree, never /repo).  Standard library only.
package main

import (
	"encoding/json"
	"flag"
	"fmt"
	"go/ast"
	"go/parser"
	"go/token"
	"os"
	"path/filepath"
	"sort"
	"strconv"
	"strings"
)

type Mutant struct {
	ID   string `json:"id"`
	File string `json:"file"`
	Line int    `json:"line"`
	Kind string `json:"kind"`
	Off  int    `json:"off"`
	Len  int    `json:"len"`
	Old  string `json:"old"`
	New  string `json:"new"`
	Func string `json:"func"`
}

var relSwap = map[token.Token]string{token.LSS: "<=", token.LEQ: "<", token.GTR: ">=", token.GEQ: ">", token.EQL: "!=", token.NEQ: "=="}
var arithSwap = map[token.Token]string{token.ADD: "-", token.SUB: "+", token.LAND: "||", token.LOR: "&&", token.SHL: ">>", token.SHR: "<<", token.AND: "|", token.OR: "&"}

func collect(repo string) []Mutant {
	var out []Mutant
	var files []string
	filepath.Walk(repo, func(p string, info os.FileInfo, err error) error {
		if err != nil || info.IsDir() {
			return nil
		}
		if strings.HasSuffix(p, ".go") && !strings.HasSuffix(p, "_test.go") && !strings.Contains(p, "/.git/") {
			files = append(files, p)
		}
		return nil
	})
	sort.Strings(files)
	for _, path := range files {
		src, err := os.ReadFile(path)
		if err != nil {
			continue
		}
		fset := token.NewFileSet()
		f, err := parser.ParseFile(fset, path, src, 0)
		if err != nil {
			continue
		}
		rel, _ := filepath.Rel(repo, path)
		fn := ""
		add := func(pos token.Pos, n int, kind, nw string) {
			o := fset.Position(pos).Offset
			if o < 0 || o+n > len(src) {
				return
			}
			out = append(out, Mutant{File: rel, Line: fset.Position(pos).Line, Kind: kind, Off: o, Len: n, Old: string(src[o : o+n]), New: nw, Func: fn})
		}
		ast.Inspect(f, func(n ast.Node) bool {
			switch x := n.(type) {
			case *ast.FuncDecl:
				fn = x.Name.Name
				if x.Name.Name == "String" || strings.HasPrefix(x.Name.Name, "toString") {
					return false // rendering is outside every property
				}
			case *ast.BinaryExpr:
				if nw, ok := relSwap[x.Op]; ok {
					add(x.OpPos, len(x.Op.String()), "rel", nw)
				}
				if nw, ok := arithSwap[x.Op]; ok {
					if bl, isLit := x.X.(*ast.BasicLit); isLit && bl.Kind == token.STRING {
						return true
					}
					add(x.OpPos, len(x.Op.String()), "arith", nw)
				}
			case *ast.BasicLit:
				if x.Kind == token.INT {
					if v, err := strconv.ParseInt(x.Value, 0, 64); err == nil && v >= 0 && v < 70000 {
						add(x.ValuePos, len(x.Value), "const+1", strconv.FormatInt(v+1, 10))
						if v > 0 {
							add(x.ValuePos, len(x.Value), "const-1", strconv.FormatInt(v-1, 10))
						}
					}
				}
			case *ast.ExprStmt:
				if c, ok := x.X.(*ast.CallExpr); ok {
					name := ""
					switch fx := c.Fun.(type) {
					case *ast.SelectorExpr:
						name = fx.Sel.Name
					case *ast.Ident:
						name = fx.Name
					}
					if name == "Reset" || name == "copy" || name == "Write" || name == "CryptBlocks" || name == "PutUint16" || name == "PutUint32" || name == "PutUint64" {
						add(x.Pos(), int(x.End()-x.Pos()), "delcall", "{}")
					}
				}
			case *ast.SliceExpr:
				if x.High != nil {
					add(x.High.End(), 0, "slice-hi", "-1")
				}
				if x.Low != nil {
					add(x.Low.End(), 0, "slice-lo", "+1")
				}
			case *ast.UnaryExpr:
				if x.Op == token.NOT {
					add(x.OpPos, 1, "not", "")
				}
			}
			return true
		})
	}
	for i := range out {
		out[i].ID = fmt.Sprintf("m%04d", i)
	}
	return out
}

func main() {
	repo := flag.String("repo", "", "tree to mutate (a scratch worktree)")
	list := flag.Bool("list", false, "list mutants")
	apply := flag.String("apply", "", "apply mutant id")
	flag.Parse()
	ms := collect(*repo)
	if *list {
		enc := json.NewEncoder(os.Stdout)
		for _, m := range ms {
			enc.Encode(m)
		}
		return
	}
	for _, m := range ms {
		if m.ID == *apply {
			p := filepath.Join(*repo, m.File)
			src, err := os.ReadFile(p)
			if err != nil {
				fmt.Fprintln(os.Stderr, err)
				os.Exit(2)
			}
			src = append(append(append([]byte{}, src[:m.Off]...), m.New...), src[m.Off+m.Len:]...)
			if err := os.WriteFile(p, src, 0o644); err != nil {
				fmt.Fprintln(os.Stderr, err)
				os.Exit(2)
			}
			return
		}
	}
	fmt.Fprintln(os.Stderr, "no such mutant")
	os.Exit(2)
}
