package main

// Presentation of octet-string inputs to the library (DESIGN.md 4.2, "caller discipline").
//
// The properties quantify over inputs as VALUES; a Go caller hands them over as slices, and a slice has more to it than
// its value: a backing array that the caller may reuse for the next call, spare capacity, and -- when empty -- nil-ness.
// A library function whose result is a function of the value must not be sensitive to any of that.  For the acts listed
// in arenaKeys the harness therefore behaves like a caller with ONE long-lived buffer per parameter:
//   - the value is copied into that buffer (so consecutive calls see the same backing array with different contents, and
//     what lies beyond len() is the remainder of an earlier, longer value); the parameters of one call lie back to back
//     in it, so the spare capacity of one parameter IS the next parameter (a caller that keeps Ni|Nr|g^ir in one buffer),
//   - after the call returns the buffer is overwritten (0xEE): whatever the library kept must be its own copy,
//   - an empty value is offered twice, as an empty non-nil slice and as nil, with the same expectations.
// Only parameters are treated this way for which today's code takes a copy / computes a pure result and a property
// demands a function of the value (C08 C09 C10 C14 C16); key material handed to constructors is not.

var arenaKeys = map[string][]string{
	"aka_prf":        {"ik", "ck", "identity"},
	"aka_set":        {"v"},
	"aka_setattr":    {"v"},
	"cipher_encrypt": {"pt"},
	"cipher_decrypt": {"ct"},
	"derive_child":   {"nonce"},
	"dh_pub":         {"x"},
	"dh_shared":      {"x", "peer"},
	"dh_calc":        {"peer"},
	"ike_derive":     {"nonce", "secret"},
}

// acts that are repeated with nil in place of empty (they must be repeatable: no state is changed by a call)
var nilActs = map[string]bool{"aka_prf": true, "derive_child": true, "cipher_encrypt": true, "cipher_decrypt": true, "dh_calc": true}

const arenaCap = 1 << 17

func (e *Env) present(act string, args J, emptyAsNil bool) J {
	ks, ok := arenaKeys[act]
	if !ok {
		return args
	}
	out := J{}
	for k, v := range args {
		out[k] = v
	}
	if e.arena == nil {
		e.arena = map[string][]byte{}
	}
	buf := e.arena[act]
	if buf == nil {
		buf = make([]byte, arenaCap)
		e.arena[act] = buf
	}
	off := 0
	for _, k := range ks {
		v, has := args[k]
		if !has {
			continue
		}
		o, err := anyToOct(v)
		if err != nil || off+len(o) > arenaCap {
			continue
		}
		if len(o) == 0 {
			if emptyAsNil {
				out[k] = Oct(nil)
			} else {
				out[k] = Oct(make([]byte, 0))
			}
			continue
		}
		copy(buf[off:], o)
		out[k] = Oct(buf[off : off+len(o)])
		off += len(o)
	}
	return out
}

func (e *Env) scribble(act string) {
	if buf := e.arena[act]; buf != nil {
		for i := 0; i < 4096 && i < len(buf); i++ {
			buf[i] = 0xEE
		}
	}
}

func hasEmptyInput(act string, args J) bool {
	if !nilActs[act] {
		return false
	}
	for _, k := range arenaKeys[act] {
		if v, has := args[k]; has {
			if o, err := anyToOct(v); err == nil && len(o) == 0 {
				return true
			}
		}
	}
	return false
}
