package main

// Presentation of octet-string inputs to the library (DESIGN.md 4.2, "caller discipline").
//
// The properties quantify over inputs as VALUES; a Go caller hands them over as slices, and a slice has more to it than
// its value: a backing array that the caller may reuse for the next call, spare capacity, and -- when empty -- nil-ness.
// A library function whose result is a function of the value must not be sensitive to any of that.  For the acts listed
// in arenaKeys the harness therefore behaves like a caller with ONE long-lived buffer per parameter:
//   - the value is copied into that buffer (so consecutive calls see the same backing array with different contents, and
//     what lies beyond len() is the remainder of an earlier, longer value); the parameters of one call lie back to back
//     in it, so the spare capacity of one parameter IS the next parameter (a caller that keeps Ni|Nr|g^ir in one buffer),
//   - after the call returns the buffer is overwritten (0xEE): whatever the library kept must be its own copy,
//   - an empty value is offered twice, as an empty non-nil slice and as nil, with the same expectations,
//   - for pure functions a twin copy of the inputs lies directly behind them and the call is repeated on the twin: a call
//     that writes past the end of a parameter (append onto a caller's slice) damages the twin and shows in the repetition.
// Octet strings a call handed out (keys, public values, codes) are held and compared again after every later step.
// Only parameters are treated this way for which today's code takes a copy / computes a pure result and a property
// demands a function of the value (C08 C09 C10 C14 C16); key material handed to constructors is not.

var arenaKeys = map[string][]string{
	"aka_prf":        {"ik", "ck", "identity"},
	"aka_set":        {"v"},
	"aka_setattr":    {"v"},
	"cipher_encrypt": {"pt"},
	"cipher_decrypt": {"ct"},
	"derive_child":   {"nonce"},
	"dh_pub":         {"x"},
	"dh_shared":      {"x", "peer"},
	"dh_calc":        {"peer"},
	"ike_derive":     {"nonce", "secret"},
	"aka_mac":        {"key"},
	"cipher_new":     {"key"},
}

// acts that are run a second time on the twin copy of their inputs (pure, repeatable calls)
var twinActs = map[string]bool{"aka_prf": true, "derive_child": true, "dh_pub": true, "dh_shared": true}

// acts that are repeated with nil in place of empty (they must be repeatable: no state is changed by a call)
var nilActs = map[string]bool{"aka_prf": true, "derive_child": true, "cipher_encrypt": true, "cipher_decrypt": true, "dh_calc": true}

const arenaCap = 1 << 17

func (e *Env) present(act string, args J, emptyAsNil bool) J {
	ks, ok := arenaKeys[act]
	if !ok {
		return args
	}
	out := J{}
	twin := J{}
	for k, v := range args {
		out[k] = v
		twin[k] = v
	}
	if e.arena == nil {
		e.arena = map[string][]byte{}
		e.twins = map[string]J{}
		e.used = map[string]int{}
	}
	buf := e.arena[act]
	if buf == nil {
		buf = make([]byte, arenaCap)
		e.arena[act] = buf
	}
	total := 0
	for _, k := range ks {
		if v, has := args[k]; has {
			if o, err := anyToOct(v); err == nil {
				total += len(o)
			}
		}
	}
	if 2*total > arenaCap {
		return args
	}
	off := 0
	for _, k := range ks {
		v, has := args[k]
		if !has {
			continue
		}
		o, err := anyToOct(v)
		if err != nil {
			continue
		}
		if len(o) == 0 {
			if emptyAsNil {
				out[k], twin[k] = Oct(nil), Oct(nil)
			} else {
				// empty and not nil: a zero-length window into the caller's buffer (buf[n:n]) -- it has no octets but it has capacity
				out[k], twin[k] = Oct(buf[off:off]), Oct(buf[total+off:total+off])
			}
			continue
		}
		copy(buf[off:], o)
		out[k] = Oct(buf[off : off+len(o)])
		// the twin copy of the same value lies directly behind the parameters of this call: whatever the call writes
		// beyond the end of its last parameter lands in it
		copy(buf[total+off:], o)
		twin[k] = Oct(buf[total+off : total+off+len(o)])
		off += len(o)
	}
	e.twins[act] = twin
	e.used[act] = total
	return out
}

// inputsWritten names the first parameter whose octets in the caller's buffer differ from the value that was passed (a
// function of the value reads its inputs; decrypting in place is the one thing a callee may legitimately do to an input).
func (e *Env) inputsWritten(act string, args J) string {
	if act == "cipher_decrypt" || e.arena == nil {
		return ""
	}
	buf := e.arena[act]
	if buf == nil {
		return ""
	}
	off := 0
	for _, k := range arenaKeys[act] {
		v, has := args[k]
		if !has {
			continue
		}
		o, err := anyToOct(v)
		if err != nil || len(o) == 0 {
			continue
		}
		if off+len(o) > e.used[act] {
			break
		}
		if string(buf[off:off+len(o)]) != string(o) {
			return k
		}
		off += len(o)
	}
	return ""
}

// scribble overwrites the parameters of the call that just returned (not the twin copy behind them).
func (e *Env) scribble(act string) {
	if buf := e.arena[act]; buf != nil {
		for i := 0; i < e.used[act] && i < len(buf); i++ {
			buf[i] = 0xEE
		}
	}
}

func (e *Env) scribbleTwin(act string) {
	if buf := e.arena[act]; buf != nil {
		for i := e.used[act]; i < 2*e.used[act] && i < len(buf); i++ {
			buf[i] = 0xEE
		}
	}
}

// ---- results the caller still holds: octet strings a call handed out stay what they were while later calls run

type heldItem struct {
	name string
	b    []byte
	snap []byte
}

func (e *Env) hold(name string, b []byte) {
	if len(b) == 0 {
		return
	}
	e.held = append(e.held, &heldItem{name: name, b: b, snap: append([]byte{}, b...)})
	if len(e.held) > 400 {
		e.held = e.held[len(e.held)-400:]
	}
}

// checkHeld names the first held result that no longer holds what was handed out (and accepts the new contents, so that
// one disturbance is reported once).
func (e *Env) checkHeld() string {
	bad := ""
	for _, h := range e.held {
		if string(h.b) != string(h.snap) {
			if bad == "" {
				bad = h.name
			}
			h.snap = append([]byte{}, h.b...)
		}
	}
	return bad
}

func hasEmptyInput(act string, args J) bool {
	if !nilActs[act] {
		return false
	}
	for _, k := range arenaKeys[act] {
		if v, has := args[k]; has {
			if o, err := anyToOct(v); err == nil && len(o) == 0 {
				return true
			}
		}
	}
	return false
}
