package main

// C18 mode (a): free-running goroutines under the Go race detector (DESIGN.md section 6, C18).  Program sets come from
// TLC (Gen_Schedules.tla).  Each goroutine runs its program on its OWN objects; all goroutines are released by one
// barrier, log into private buffers and are joined at the end -- no other synchronisation, so that all their accesses
// are concurrent in the happens-before sense and the race detector reports any conflicting pair it executes.  Every
// goroutine's results are compared with the results of running its program alone.

import (
	"bufio"
	"encoding/binary"
	"encoding/json"
	"flag"
	"fmt"
	"math/big"
	"math/rand"
	"os"
	"runtime"
	"strings"
	"sync"
	"sync/atomic"
	"time"

	ike "github.com/free5gc/ike"
	"github.com/free5gc/ike/eap"
	"github.com/free5gc/ike/message"
	"github.com/free5gc/ike/security"
	"github.com/free5gc/ike/security/dh"
	"github.com/free5gc/ike/security/encr"
	"github.com/free5gc/ike/security/integ"
	"github.com/free5gc/ike/security/prf"
)

func init() {
	commands["race"] = raceMain
	commands["cold"] = coldMain
}

type progSet struct {
	Fam        string     `json:"fam"`
	N          int        `json:"n"`
	GoMaxProcs int        `json:"gomaxprocs"`
	Reps       int        `json:"reps"`
	Programs   [][]string `json:"programs"`
	ID         string     `json:"id"`
}

var sharedWire []byte // a read-only input slice shared by concurrent decoders
var sharedSnap []byte // what it held when the run began
var nonceArena []byte // 64 regions of 64 octets: the nonces of concurrent derivations lie next to each other
var nonceSnap []byte

// every number GenerateRandomNumber returned during the run (C09/C18: locally generated numbers differ from call to call)
var (
	randSeenMu                 sync.Mutex
	randSeen                   = map[string]bool{}
	randDup                    int
	sharedPeer, sharedPeerSnap *big.Int
	sharedCT, sharedCTSnap     []byte
)

// keyLensWrong: the seven keys of an SA derived for a suite have the lengths that suite prescribes, whatever other suites the process
// has derived keys for before (RFC 7296 2.14; HMAC key = hash output)
func keyLensWrong(o J, encrBits int, integ, prfn string) string {
	hl := map[string]int{"md5": 16, "sha1": 20, "sha256": 32}
	if e, _ := o["err"].(bool); e {
		return fmt.Sprintf("key derivation for AES-%d / %s / prf %s failed", encrBits, integ, prfn)
	}
	want := map[string]int{"sk_d": hl[prfn], "sk_ai": hl[integ], "sk_ar": hl[integ], "sk_ei": encrBits / 8, "sk_er": encrBits / 8, "sk_pi": hl[prfn], "sk_pr": hl[prfn]}
	for k, n := range want {
		if v, ok := o[k].(Oct); ok && len(v) != n {
			return fmt.Sprintf("AES-%d / %s / prf %s: %s has %d octets, the suite prescribes %d", encrBits, integ, prfn, k, len(v), n)
		}
	}
	return ""
}

var encrNames2 = map[int]string{128: "aes-cbc-128", 192: "aes-cbc-192", 256: "aes-cbc-256"}

// groupPrime: the modulus of group 2 (i = 0) / 14 (i = 1), recovered from the library-independent identity 2^n mod p = 2^n - p
// for n = 1024 / 2048 (the top bit of p is set) -- computed once with math/big from the group's own public value of n
var groupPrimes [2]*big.Int
var groupPrimeOnce sync.Once

func groupPrime(i int) *big.Int {
	groupPrimeOnce.Do(func() {
		for q, n := range []uint{1024, 2048} {
			t := dh.StrToType(dhNames[[]int{2, 14}[q]])
			r := new(big.Int).SetBytes(t.GetPublicValue(big.NewInt(int64(n))))
			groupPrimes[q] = new(big.Int).Sub(new(big.Int).Lsh(big.NewInt(1), n), r)
		}
	})
	return groupPrimes[i]
}

func scribbleOct(b []byte) {
	for i := range b {
		b[i] = ^b[i]
	}
}

func digest(v any) string {
	b, _ := json.Marshal(v)
	return string(b)
}

// runOp performs one library operation for goroutine g and returns a digest of what it observed.  Everything it touches
// is created here (own messages, own SA objects); only the registries, the random source and sharedWire are shared.
// progress of the race driver: when the last operation returned and which kind was entered last (the watchdog reports a process in
// which no operation returns any more -- a call that blocks because of what OTHER calls did is interference of the plainest kind)
var (
	lastReturn atomic.Int64
	lastKind   atomic.Value
)

func runOp(kind string, g int, seed int64, i int) (out string) {
	lastKind.Store(kind)
	defer lastReturn.Store(time.Now().UnixNano())
	defer func() {
		if r := recover(); r != nil {
			out = fmt.Sprintf("panic: %v", r)
		}
	}()
	rng := rand.New(rand.NewSource(seed*1000003 + int64(g)*7919 + int64(i)))
	gn := gen{rng}
	e := newEnv(seed)
	switch kind {
	case "encode_fail":
		// an encode that fails (a proposal without transforms), then ordinary encodes
		bad, _ := buildMsg(J{"ispi": be(1, 8), "rspi": be(2, 8), "maj": 2, "min": 0, "xt": 34, "flags": 8, "mid": be(0, 4),
			"payloads": []any{J{"k": "NONCE", "data": gn.octs(8)}, J{"k": "SA", "props": []any{J{"num": 1, "proto": 1, "spi": Oct{}, "tr": []any{}}}}}})
		_, ferr := bad.Encode()
		big, _ := buildMsg(J{"ispi": be(1, 8), "rspi": be(2, 8), "maj": 2, "min": 0, "xt": 34, "flags": 8, "mid": be(0, 4),
			"payloads": []any{J{"k": "V", "data": gn.octs(70000)}}})
		_, ferr2 := big.Encode()
		wrong := 0
		for k := 0; k < 40; k++ {
			m := gn.message()
			o := actEncode(e, J{"msg": m})
			if w, ok := o["wire"]; ok {
				o2 := actDecode(e, J{"wire": w, "caps": false})
				m2, err := buildMsg(m)
				if o2["err"] == true || err != nil || !eqJ(o2["msg"], projMsg(m2)) {
					wrong++
				}
			}
		}
		return digest(J{"failed": ferr != nil, "failed2": ferr2 != nil, "wrong": wrong})
	case "rand_stress":
		// many draws in a tight loop (nothing between two draws, so that goroutines really contend for the source); the
		// numbers are compared afterwards for global distinctness (randSeen)
		ok := true
		xs := make([]string, 0, 64)
		for k := 0; k < 64; k++ {
			x, err := security.GenerateRandomNumber()
			if err != nil || x.BitLen() <= 128 || x.BitLen() > 2048 {
				ok = false
				continue
			}
			xs = append(xs, string(x.Bytes()))
		}
		randSeenMu.Lock()
		for _, x := range xs {
			if randSeen[x] {
				randDup++
			}
			randSeen[x] = true
		}
		randSeenMu.Unlock()
		return digest(ok)
	case "encode":
		m := gn.message()
		o := actEncode(e, J{"msg": m})
		if w, ok := o["wire"]; ok {
			o2 := actDecode(e, J{"wire": w, "caps": false})
			return digest(J{"wire": w, "dec": o2["msg"], "err": o2["err"]})
		}
		return digest(o["err"])
	case "decode_shared":
		m := new(message.IKEMessage)
		err := m.Decode(sharedWire) // no copy: read-only sharing of the input slice
		if err != nil {
			return "err"
		}
		// the caller goes on with what it decoded: Ni | Nr built by appending to the decoded nonce, the KE value extended --
		// its own slices now, nothing of that may reach the shared datagram
		var ext []any
		for _, p := range m.Payloads {
			switch x := p.(type) {
			case *message.Nonce:
				ext = append(ext, octOf(append(x.NonceData, fillPattern("seeded", 32, g+1)...)))
			case *message.KeyExchange:
				ext = append(ext, octOf(append(x.KeyExchangeData, byte(g), byte(i))))
			case *message.Notification:
				ext = append(ext, octOf(append(x.NotificationData, byte(g))))
			}
		}
		pm := projMsg(m)
		// ... and it edits what it decoded IN PLACE (its own memory by now): every octet string of every payload, down to the values of
		// variable-length transform attributes
		for _, p := range m.Payloads {
			switch x := p.(type) {
			case *message.Nonce:
				scribbleOct(x.NonceData)
			case *message.KeyExchange:
				scribbleOct(x.KeyExchangeData)
			case *message.Notification:
				scribbleOct(x.NotificationData)
				scribbleOct(x.SPI)
			case *message.SecurityAssociation:
				for _, pr := range x.Proposals {
					scribbleOct(pr.SPI)
					for _, c := range []message.TransformContainer{pr.EncryptionAlgorithm, pr.PseudorandomFunction, pr.IntegrityAlgorithm, pr.DiffieHellmanGroup, pr.ExtendedSequenceNumbers} {
						for _, t := range c {
							scribbleOct(t.VariableLengthAttributeValue)
						}
					}
				}
			}
		}
		return digest(J{"msg": pm, "ext": ext})
	case "reject_then_accept":
		// one owner working sequentially on its own SA: a datagram that cannot be unprotected (ciphertext not a block multiple,
		// cut short, altered), then at once the genuine one -- refused and accepted exactly as when each is handled alone
		suite := suiteByIndex((g+i)%9 + 1)
		keys := patternKeys(suite, g+50)
		s1, err := newSA(suite, keys, false)
		if err != nil {
			return "infra: " + err.Error()
		}
		s2, _ := newSA(suite, keys, false)
		mj := J{"ispi": be(uint64(g), 8), "rspi": be(9, 8), "maj": 2, "min": 0, "xt": 37, "flags": 8, "mid": be(uint64(i), 4),
			"payloads": []any{J{"k": "NONCE", "data": fillPattern("seeded", 40+g%7, g)}}}
		m1, _ := buildMsg(mj)
		w, err := ike.EncodeEncrypt(m1, s1.key, message.Role_Initiator)
		if err != nil {
			return "err"
		}
		var verdicts []any
		for k := 0; k < 6; k++ {
			bad := append([]byte{}, w...)
			switch k % 3 {
			case 0:
				bad = bad[:len(bad)-5] // no longer a whole number of blocks
			case 1:
				bad[len(bad)-20] ^= 0x40
			default:
				bad = append(bad[:60], bad[len(bad)-12:]...)
			}
			binary.BigEndian.PutUint32(bad[24:28], uint32(len(bad)))
			if len(bad) >= 32 {
				binary.BigEndian.PutUint16(bad[30:32], uint16(len(bad)-28))
			}
			_, e1 := ike.DecodeDecrypt(bad, nil, s2.key, message.Role_Responder)
			m2, e2 := ike.DecodeDecrypt(append([]byte{}, w...), nil, s2.key, message.Role_Responder)
			ok := e2 == nil && m2 != nil && len(m2.Payloads) == 1
			verdicts = append(verdicts, e1 != nil, ok)
		}
		return digest(verdicts)
	case "reject_proposal":
		// proposals the library must refuse, each for another unsupported element, through both constructors; the owner KEEPS every
		// error it was given (it logs them when the exchange is over): each still reads as it read when it was returned
		bad := [][2]int{{4, 5}, {4, 15}, {1, 3}, {1, 13}, {2, 3}, {3, 5}, {4, 19}, {2, 7}, {3, 9}, {5, 7}}
		var kept []error
		var texts []string
		for k := 0; k < 5; k++ {
			id := bad[(g*3+i+k)%len(bad)]
			child := (g+k)%2 == 1
			trs := []any{
				J{"c": 1, "tt": 1, "tid": 12, "attr": "tv", "at": 14, "av": []int{128, 192, 256}[(g+k)%3], "avl": Oct{}},
				J{"c": 2, "tt": 2, "tid": 2, "attr": "none", "at": 0, "av": 0, "avl": Oct{}},
				J{"c": 3, "tt": 3, "tid": 2, "attr": "none", "at": 0, "av": 0, "avl": Oct{}},
				J{"c": 4, "tt": 4, "tid": 14, "attr": "none", "at": 0, "av": 0, "avl": Oct{}}}
			if child {
				trs[1] = J{"c": 5, "tt": 5, "tid": 0, "attr": "none", "at": 0, "av": 0, "avl": Oct{}}
				if id[0] == 2 {
					id = [2]int{5, 7}
				}
			} else if id[0] == 5 {
				id = [2]int{4, 5}
			}
			for q, t := range trs {
				if gi(t.(J), "tt") == id[0] {
					trs[q] = J{"c": id[0], "tt": id[0], "tid": id[1], "attr": "none", "at": 0, "av": 0, "avl": Oct{}}
				}
			}
			pl, err := buildPayload(J{"k": "SA", "props": []any{J{"num": 1, "proto": map[bool]int{false: 1, true: 3}[child], "spi": Oct{1, 2, 3, 4}[:map[bool]int{false: 0, true: 4}[child]], "tr": trs}}})
			if err != nil {
				return "infra: " + err.Error()
			}
			prop := pl.(*message.SecurityAssociation).Proposals[0]
			if child {
				_, err = security.NewChildSAKeyByProposal(prop)
			} else {
				_, _, err = security.NewIKESAKey(prop, fillPattern("seeded", 256, g), fillPattern("seeded", 32, g+1), 1, 2)
			}
			if err == nil {
				return fmt.Sprintf("absolute: a proposal with unsupported transform type %d id %d was accepted", id[0], id[1])
			}
			kept = append(kept, err)
			texts = append(texts, err.Error())
		}
		for k, err := range kept {
			if err.Error() != texts[k] {
				return fmt.Sprintf("absolute: an error the caller kept changed after later calls: it read %q when returned and reads %q now", texts[k], err.Error())
			}
		}
		return digest(texts)
	case "decode_unknown":
		// own datagram (a copy of the shared one) with an unsupported, non-critical payload spliced in front: the skip
		// path of the chain walker, on every goroutine at once
		w := append([]byte{}, sharedWire...)
		first := w[16]
		unk := []byte{first, 0, 0, byte(8 + g%5), 1, 2, 3, 4, 5, 6, 7, 8}[:8+g%5]
		w = append(append(append([]byte{}, w[:28]...), unk...), w[28:]...)
		w[16] = byte(49 + (g+i)%16)
		binary.BigEndian.PutUint32(w[24:28], uint32(len(w)))
		m := new(message.IKEMessage)
		if err := m.Decode(w); err != nil {
			return "err"
		}
		return digest(projMsg(m))
	case "reencode_shared":
		// decode the SHARED read-only input, add a payload of one's own to a container of one's own, encode: nothing of
		// that may write the shared input (other goroutines are decoding it)
		m := new(message.IKEMessage)
		if err := m.Decode(sharedWire); err != nil {
			return "err"
		}
		n := &message.Notification{NotifyMessageType: uint16(16384 + g), NotificationData: []byte{byte(g), byte(i), 3}}
		m2 := &message.IKEMessage{IKEHeader: m.IKEHeader, Payloads: append(message.IKEPayloadContainer{n}, m.Payloads...)}
		w, err := m2.Encode()
		if err != nil {
			return "err"
		}
		return digest(octOf(w))
	case "protect_unprotect":
		suite := suiteByIndex(g%9 + 1)
		keys := patternKeys(suite, g)
		s1, err := newSA(suite, keys, false)
		if err != nil {
			return "infra: " + err.Error()
		}
		s2, _ := newSA(suite, keys, false)
		mj := J{"ispi": be(uint64(g), 8), "rspi": be(7, 8), "maj": 2, "min": 0, "xt": 35, "flags": 8, "mid": be(uint64(i), 4),
			"payloads": []any{J{"k": "N", "proto": 3, "ntype": 16393, "spi": Oct{1, 2, 3, 4}, "data": gn.octs(20)}, J{"k": "NONCE", "data": gn.octs(32)}}}
		m, err := buildMsg(mj)
		if err != nil {
			return "infra: " + err.Error()
		}
		role := message.Role(g%2 == 0)
		w, err := ike.EncodeEncrypt(m, s1.key, role)
		if err != nil {
			return "protect err: " + err.Error()
		}
		back, err := ike.DecodeDecrypt(w, nil, s2.key, !role)
		if err != nil {
			return "unprotect err: " + err.Error()
		}
		return digest(J{"same": eqJ(projMsg(back), mj), "len": len(w)})
	case "ike_derive":
		o := actIkeDerive(e, J{"suite": J{"encr": []int{128, 192, 256}[g%3], "integ": []string{"md5", "sha1", "sha256"}[(g/3)%3], "prf": []string{"md5", "sha1", "sha256"}[(g/9)%3]},
			"grp": []int{2, 14}[g%2], "via": []string{"str", "transform"}[i%2], "nonce": fillPattern("seeded", []int{32, 64, 96, 200, 512}[(g+i)%5], g), "secret": fillPattern("seeded", 256, g+1),
			"spii": be(uint64(g), 8), "spir": be(uint64(g+1), 8), "probe": Oct{1, 2, 3}})
		if why := keyLensWrong(o, []int{128, 192, 256}[g%3], []string{"md5", "sha1", "sha256"}[(g/3)%3], []string{"md5", "sha1", "sha256"}[(g/9)%3]); why != "" {
			return "absolute: " + why
		}
		return digest(o)
	case "derive_arena":
		// the nonces of all goroutines are neighbouring regions of ONE buffer the callers share read-only (each slice has
		// the neighbours' regions as its spare capacity): a derivation reads its own region and writes nothing
		suite := J{"encr": 256, "integ": "sha1", "prf": []string{"md5", "sha1", "sha256"}[g%3]}
		k := new(security.IKESAKey)
		infosFromNames(k, suite, 14)
		reg := (g % 64) * 64
		nonce := nonceArena[reg : reg+48+(g%3)*8]
		if err := k.GenerateKeyForIKESA(nonce, fillPattern("seeded", 256, g+1), uint64(g), uint64(g+1)); err != nil {
			return "err"
		}
		c := new(security.ChildSAKey)
		c.EncrKInfo = encr.StrToKType(encrNames[128])
		c.IntegKInfo = integ.StrToKType(integNames["sha1"])
		if err := c.GenerateKeyForChildSA(k, nonce[:32]); err != nil {
			return "err"
		}
		return digest(J{"sk_d": octOf(k.SK_d), "sk_pr": octOf(k.SK_pr), "ei": octOf(c.InitiatorToResponderEncryptionKey), "ar": octOf(c.ResponderToInitiatorIntegrityKey)})
	case "derive_child":
		suite := suiteByIndex(g%9 + 1)
		s, err := newSA(suite, patternKeys(suite, g), false)
		if err != nil {
			return "infra: " + err.Error()
		}
		e.objs["sa:A"] = s
		var outs []any
		for k := 0; k < 3; k++ {
			outs = append(outs, actDeriveChild(e, J{"sa": "A", "nonce": fillPattern("seeded", 16+k, g), "encr": 256, "integ": "sha1"}))
		}
		return digest(outs)
	case "dh":
		t := dh.StrToType(dhNames[[]int{2, 14}[g%2]])
		x := new(big.Int).SetBytes(fillPattern("seeded", 64, g))
		y := new(big.Int).SetBytes(fillPattern("seeded", 64, g+50))
		// the peer's public value is one number all goroutines read (the same peer answering several exchanges): it is an input
		sh2 := t.GetSharedKey(x, sharedPeer)
		if sharedPeer.Cmp(sharedPeerSnap) != 0 {
			return "absolute: the peer's public value (an input shared read-only) was changed by GetSharedKey"
		}
		// peers also send degenerate values (0, 1, p-1, p, p+1, a value longer than the modulus): whatever the library makes of
		// them, it makes the same of them here as when asked alone, and the exchanges that follow are not affected
		var degen []any
		for _, pv := range []*big.Int{big.NewInt(0), big.NewInt(1), new(big.Int).Sub(groupPrime(g%2), big.NewInt(1)), groupPrime(g % 2),
			new(big.Int).Add(groupPrime(g%2), big.NewInt(1)), new(big.Int).Lsh(big.NewInt(1), 2100)} {
			degen = append(degen, octOf(t.GetSharedKey(x, pv)))
		}
		return digest(J{"pub": octOf(t.GetPublicValue(x)), "sh": octOf(t.GetSharedKey(x, new(big.Int).SetBytes(t.GetPublicValue(y)))), "sh2": octOf(sh2), "degen": degen})
	case "transforms":
		var outs []any
		for _, kd := range []string{"encr", "encrk", "integ", "integk", "prf", "dh"} {
			for _, n := range []string{"aes-cbc-128", "aes-cbc-256", "md5", "sha1", "sha256", "modp-2", "modp-14"} {
				o := actAlgToTransform(e, J{"kind": kd, "name": n})
				if f, ok := o["fresh"].(bool); ok && !f {
					return "absolute: " + kd + " " + n + ": a transform handed out earlier and edited by its owner came back when the same algorithm was asked for again"
				}
				if tr, ok := o["tr"].(J); ok {
					o2 := actTransformToAlg(e, J{"kind": kd, "tr": jsonRound(tr), "wire": i%2 == 0})
					outs = append(outs, o2["alg"])
				}
			}
		}
		outs = append(outs, actTransformToAlg(e, J{"kind": "esn", "tr": J{"c": 5, "tt": 5, "tid": g % 2, "attr": "none", "at": 0, "av": 0, "avl": Oct{}}})["alg"])
		return digest(outs)
	case "eap":
		p := eap.NewEapAkaPrime(eap.SubtypeAkaChallenge)
		_ = p.SetAttr(eap.AT_RAND, fillPattern("seeded", 16, g))
		_ = p.SetAttr(eap.AT_AUTN, fillPattern("seeded", 16, g+1))
		_ = p.SetAttr(eap.AT_KDF, Oct{0, 1})
		_ = p.SetAttr(eap.AT_KDF_INPUT, fillPattern("seeded", 11, g))
		pk := &eap.EAP{Code: eap.EapCodeRequest, Identifier: uint8(g), EapTypeData: p}
		mac, err := pk.CalcEapAkaPrimeAtMAC(fillPattern("seeded", 32, g))
		if err != nil {
			return "mac err"
		}
		_ = p.SetAttr(eap.AT_MAC, mac)
		b, err := pk.Marshal()
		if err != nil {
			return "marshal err"
		}
		back := new(eap.EAP)
		if err := back.Unmarshal(b); err != nil {
			return "unmarshal err"
		}
		ke, ka, _, _, _, err := eap.EapAkaPrimePRF(fillPattern("seeded", 16, g), fillPattern("seeded", 16, g+3), fmt.Sprintf("id-%d", g))
		return digest(J{"wire": octOf(b), "back": projEap(back), "ke": octOf(ke), "ka": octOf(ka), "e": err != nil})
	case "rand":
		x, err := security.GenerateRandomNumber()
		u, err2 := security.GenerateRandomUint8()
		_ = u
		ok := err == nil && err2 == nil && x.BitLen() > 128 && x.BitLen() <= 2048
		return digest(ok)
	case "new_ike_sa":
		pj := J{"num": 1, "proto": 1, "spi": Oct{}, "tr": []any{
			J{"c": 1, "tt": 1, "tid": 12, "attr": "tv", "at": 14, "av": []int{128, 192, 256}[g%3], "avl": Oct{}},
			J{"c": 2, "tt": 2, "tid": []int{1, 2, 5}[g%3], "attr": "none", "at": 0, "av": 0, "avl": Oct{}},
			J{"c": 3, "tt": 3, "tid": []int{1, 2, 12}[(g/3)%3], "attr": "none", "at": 0, "av": 0, "avl": Oct{}},
			J{"c": 4, "tt": 4, "tid": []int{2, 14}[g%2], "attr": "none", "at": 0, "av": 0, "avl": Oct{}}}}
		// every other time the proposal is assembled in the owner's scratch transform lists, which are Reset and filled with the
		// next negotiation's choices before the proposal is used
		o := actProposalRoundtrip(e, J{"kind": "ike", "prop": pj, "wire": i%2 == 0, "scratch": i%2 == 1})
		if want := encrNames2[[]int{128, 192, 256}[g%3]]; o["err"] == false && o["encr"] != want {
			return fmt.Sprintf("absolute: the SA built from a proposal offering %v holds %v", want, o["encr"])
		}
		return digest(J{"err": o["err"], "encr": o["encr"], "integ": o["integ"], "prf": o["prf"], "dh": o["dh"], "back": o["back"]})
	case "transform_stress":
		// tight loop of transform -> algorithm lookups; every goroutine asks for a different key length / identifier mix
		bits := []int{128, 192, 256}[g%3]
		integID := []int{1, 2, 12}[g%3]
		prfID := []int{1, 2, 5}[g%3]
		grp := []int{2, 14}[g%2]
		bad := 0
		for k := 0; k < 4000; k++ {
			tj := J{"c": 1, "tt": 1, "tid": 12, "attr": "tv", "at": 14, "av": bits, "avl": Oct{}}
			kind := []string{"encr", "encrk"}[k%2]
			if actTransformToAlg(e, J{"kind": kind, "tr": tj})["alg"] != fmt.Sprintf("aes-cbc-%d", bits) {
				bad++
			}
			if k%4 == 0 {
				for _, q := range []struct {
					kind string
					tt   int
					id   int
					want string
				}{{"integ", 3, integID, []string{"md5", "sha1", "sha256"}[g%3]}, {"integk", 3, integID, []string{"md5", "sha1", "sha256"}[g%3]},
					{"prf", 2, prfID, []string{"md5", "sha1", "sha256"}[g%3]}, {"dh", 4, grp, fmt.Sprintf("modp-%d", grp)}} {
					tq := J{"c": q.tt, "tt": q.tt, "tid": q.id, "attr": "none", "at": 0, "av": 0, "avl": Oct{}}
					if actTransformToAlg(e, J{"kind": q.kind, "tr": tq})["alg"] != q.want {
						bad++
					}
				}
			}
		}
		return digest(J{"wrong": bad})
	case "codec_stress":
		bad := 0
		for k := 0; k < 300; k++ {
			m := gn.message()
			o := actEncode(e, J{"msg": m})
			if w, ok := o["wire"]; ok {
				o2 := actDecode(e, J{"wire": w, "caps": false})
				m2, err := buildMsg(m)
				if o2["err"] == true || err != nil || !eqJ(o2["msg"], projMsg(m2)) {
					bad++
				}
			}
		}
		return digest(J{"wrong": bad})
	case "eap_stress":
		bad := 0
		for k := 0; k < 200; k++ {
			p := eap.NewEapAkaPrime(eap.EapAkaSubtype(1 + k%5))
			res := fillPattern("seeded", 4+(g+k)%13, g)
			_ = p.SetAttr(eap.AT_RES, res)
			_ = p.SetAttr(eap.AT_KDF_INPUT, fillPattern("seeded", (g*7+k)%60, g+k))
			_ = p.SetAttr(eap.AT_MAC, make([]byte, 16))
			pk := &eap.EAP{Code: eap.EapCodeResponse, Identifier: uint8(k), EapTypeData: p}
			b, err := pk.Marshal()
			back := new(eap.EAP)
			if err != nil || back.Unmarshal(b) != nil {
				bad++
				continue
			}
			a, gerr := back.EapTypeData.(*eap.EapAkaPrime).GetAttr(eap.AT_RES)
			if gerr != nil || string(a.GetValue()) != string(res) {
				bad++
			}
			m1, e1 := pk.CalcEapAkaPrimeAtMAC(fillPattern("seeded", 32, g))
			m2, e2 := back.CalcEapAkaPrimeAtMAC(fillPattern("seeded", 32, g))
			if e1 != nil || e2 != nil || string(m1) != string(m2) {
				bad++
			}
		}
		return digest(J{"wrong": bad})
	case "keys_stress":
		var outs []any
		for k := 0; k < 12; k++ {
			o := actIkeDerive(e, J{"name": "S", "suite": J{"encr": []int{128, 192, 256}[(g+k)%3], "integ": []string{"md5", "sha1", "sha256"}[(g/3+k)%3], "prf": []string{"md5", "sha1", "sha256"}[(g+2*k)%3]},
				"grp": 14, "via": []string{"str", "transform"}[k%2], "nonce": fillPattern("seeded", []int{16 + k, 80 + k, 130, 300}[k%4], g), "secret": fillPattern("seeded", 128, g+k),
				"spii": be(uint64(g), 8), "spir": be(uint64(k), 8)})
			if why := keyLensWrong(o, []int{128, 192, 256}[(g+k)%3], []string{"md5", "sha1", "sha256"}[(g/3+k)%3], []string{"md5", "sha1", "sha256"}[(g+2*k)%3]); why != "" {
				return "absolute: " + why
			}
			c := actDeriveChild(e, J{"sa": "S", "nonce": fillPattern("seeded", 8+k, g), "encr": 128, "integ": []string{"none", "md5", "sha1", "sha256"}[k%4]})
			outs = append(outs, o["sk_d"], o["sk_pr"], c["er"], c["ar"])
		}
		return digest(outs)
	case "strings":
		s := message.IkePayloadType(33+g%16).String() + message.IkePayloadType(200).String() + eap.EapType(50).String() + eap.EapType(uint8(g)).String() +
			eap.AT_RES.String() + eap.EapAkaPrimeAttrType(uint8(g)).String()
		return s
	case "builders":
		var c message.IKEPayloadContainer
		c.BuildNotification(3, 16393, Oct{1, 2, 3, 4}, gn.octs(8))
		c.BuildNonce(gn.octs(16))
		_ = c.BuildNotify5G_QOS_INFO(uint8(g), []uint8{1, 2, 3}, true, true, 46)
		c.BuildEAP5GStart(uint8(g))
		sa := c.BuildSecurityAssociation()
		p := sa.Proposals.BuildProposal(1, 1, nil)
		p.EncryptionAlgorithm.BuildTransform(1, 12, u16p(14), u16p(256), nil)
		b, err := c.Encode()
		return digest(J{"wire": octOf(b), "err": err != nil})
	case "decrypt_shared":
		// every goroutine has its own cipher object (all keyed alike) and decrypts ONE ciphertext the callers share read-only
		t := encr.StrToType(encrNames[256])
		c, err := t.NewCrypto([]byte(fillPattern("seeded", 32, 7)))
		if err != nil {
			return "infra: " + err.Error()
		}
		pt, err := c.Decrypt(sharedCT)
		if string(sharedCT) != string(sharedCTSnap) {
			return "absolute: the ciphertext (an input shared read-only by concurrent Decrypt calls on separate cipher objects) was written by Decrypt"
		}
		if err != nil {
			return "err: " + err.Error()
		}
		return digest(J{"pt": octOf(pt)})
	case "cipher":
		o := actCipherNew(e, J{"name": "c", "bits": []int{128, 192, 256}[g%3], "key": fillPattern("seeded", []int{16, 24, 32}[g%3], g)})
		if o["err"] == true {
			return "new err"
		}
		pt := gn.octs(1 + g%40)
		o2 := actCipherEncrypt(e, J{"obj": "c", "pt": pt})
		o3 := actCipherDecrypt(e, J{"obj": "c", "ct": o2["ct"], "caps": false})
		return digest(J{"ok": eqJ(o3["pt"], pt), "len": o2["ctlen"]})
	}
	return "unknown op " + kind
}

// jsonRound turns a projection (ints, Oct) into the shape decoded JSON has, so that acts can take it as an argument.
func jsonRound(v J) J {
	b, _ := json.Marshal(v)
	var out J
	json.Unmarshal(b, &out)
	return out
}

func raceMain(argv []string) int {
	fs := flag.NewFlagSet("race", flag.ExitOnError)
	in := fs.String("in", "", "program sets (ndjson)")
	out := fs.String("out", "", "result json")
	seed := fs.Int64("seed", 1, "seed")
	fs.Parse(argv)
	f, err := os.Open(*in)
	if err != nil {
		fmt.Fprintln(os.Stderr, err)
		return 2
	}
	defer f.Close()
	t0 := time.Now()
	// the shared read-only input
	{
		m, _ := buildMsg(J{"ispi": be(1, 8), "rspi": be(2, 8), "maj": 2, "min": 0, "xt": 34, "flags": 8, "mid": be(0, 4), "payloads": []any{
			J{"k": "SA", "props": []any{J{"num": 1, "proto": 1, "spi": Oct{}, "tr": []any{J{"c": 1, "tt": 1, "tid": 12, "attr": "tv", "at": 14, "av": 256, "avl": Oct{}},
				J{"c": 1, "tt": 1, "tid": 20, "attr": "tlv", "at": 300, "av": 0, "avl": Oct{9, 8, 7, 6, 5}}, J{"c": 2, "tt": 2, "tid": 5, "attr": "none", "at": 0, "av": 0, "avl": Oct{}}}},
				J{"num": 2, "proto": 3, "spi": Oct{1, 2, 3, 4}, "tr": []any{J{"c": 1, "tt": 1, "tid": 12, "attr": "tv", "at": 14, "av": 128, "avl": Oct{}}}}}},
			J{"k": "KE", "grp": 14, "data": fillPattern("seeded", 256, 1)}, J{"k": "NONCE", "data": fillPattern("seeded", 32, 2)},
			J{"k": "N", "proto": 0, "ntype": 16388, "spi": Oct{}, "data": fillPattern("seeded", 20, 3)}}})
		sharedWire, _ = m.Encode()
		// as datagrams arrive in the field: an unsupported, non-critical payload (a vendor extension) in front of the chain and one
		// at its end -- the shared datagram goes through the skipping branch of every decoder that reads it
		if len(sharedWire) > 32 {
			w := sharedWire
			unk1 := []byte{w[16], 0, 0, 9, 1, 2, 3, 4, 5}
			w2 := append(append(append([]byte{}, w[:28]...), unk1...), w[28:]...)
			w2[16] = 201
			for off := 28; off+4 <= len(w2); {
				l := int(binary.BigEndian.Uint16(w2[off+2 : off+4]))
				if w2[off] == 0 || l < 4 {
					w2[off] = 202
					break
				}
				off += l
			}
			w2 = append(w2, 0, 0, 0, 6, 9, 9)
			binary.BigEndian.PutUint32(w2[24:28], uint32(len(w2)))
			sharedWire = w2
		}
		sharedSnap = append([]byte{}, sharedWire...)
		sharedPeer = new(big.Int).SetBytes(dh.StrToType(dhNames[14]).GetPublicValue(new(big.Int).SetBytes(fillPattern("seeded", 64, 99))))
		sharedPeerSnap = new(big.Int).Set(sharedPeer)
		if c, err := encr.StrToType(encrNames[256]).NewCrypto([]byte(fillPattern("seeded", 32, 7))); err == nil {
			sharedCT, _ = c.Encrypt([]byte(fillPattern("seeded", 333, 8)))
			sharedCTSnap = append([]byte{}, sharedCT...)
		}
		nonceArena = []byte(fillPattern("seeded", 64*64+64, 77))
		nonceSnap = append([]byte{}, nonceArena...)
	}
	res := &DriveResult{Name: "race", Extra: J{}, StepsBy: J{}}
	lastReturn.Store(time.Now().UnixNano())
	lastKind.Store("")
	go func() { // watchdog: no operation has returned for two minutes (longer while the machine is overloaded)
		quiet := 0
		for {
			time.Sleep(5 * time.Second)
			if time.Since(time.Unix(0, lastReturn.Load())) < 120*time.Second {
				quiet = 0
				continue
			}
			if overloaded() && quiet < 96 { // up to eight more minutes under load
				quiet++
				continue
			}
			k, _ := lastKind.Load().(string)
			res.Failures = append(res.Failures, J{"prop": "C18", "sig": "interference:hang:" + k,
				"what": "no operation has returned for two minutes: calls of kind " + k + " (which return when made alone on a fresh process) block", "replay": J{"fam": "race-set"}})
			res.WallS = time.Since(t0).Seconds()
			b, _ := json.MarshalIndent(res, "", " ")
			os.WriteFile(*out, b, 0o644)
			os.Exit(1)
		}
	}()
	sc := bufio.NewScanner(f)
	sc.Buffer(make([]byte, 1<<20), 1<<26)
	totalOps, goroutines := 0, 0
	pairs := map[string]bool{}
	for sc.Scan() {
		var ps progSet
		if err := json.Unmarshal(sc.Bytes(), &ps); err != nil {
			res.Infra++
			res.InfraMsg = append(res.InfraMsg, err.Error())
			continue
		}
		res.Vectors++
		res.Distinct++
		old := runtime.GOMAXPROCS(ps.GoMaxProcs)
		for rep := 0; rep < ps.Reps; rep++ {
			rs := *seed + int64(rep)
			// sequential reference: every program run alone
			ref := make([][]string, ps.N)
			for g := 0; g < ps.N; g++ {
				for i, k := range ps.Programs[g] {
					ref[g] = append(ref[g], runOp(k, g, rs, i))
				}
			}
			// concurrent run: one barrier, private logs, join
			got := make([][]string, ps.N)
			start := make(chan struct{})
			var wg sync.WaitGroup
			for g := 0; g < ps.N; g++ {
				wg.Add(1)
				go func(g int) {
					defer wg.Done()
					mine := make([]string, 0, len(ps.Programs[g]))
					<-start
					for i, k := range ps.Programs[g] {
						mine = append(mine, runOp(k, g, rs, i))
					}
					got[g] = mine
				}(g)
			}
			close(start)
			wg.Wait()
			for g := 0; g < ps.N; g++ {
				goroutines++
				for i := range ps.Programs[g] {
					totalOps++
					if got[g][i] != ref[g][i] {
						what := fmt.Sprintf("goroutine %d op %d (%s) of set %s: concurrent result differs from the sequential result", g, i, ps.Programs[g][i], ps.ID)
						if len(res.Failures) < 50 {
							res.Failures = append(res.Failures, J{"prop": "C18", "sig": "interference:" + ps.Programs[g][i], "what": what + " got " + clip(got[g][i]) + " want " + clip(ref[g][i]),
								"replay": J{"fam": "race-set", "set": ps}})
						}
					}
					for _, r := range []string{ref[g][i], got[g][i]} {
						if strings.HasPrefix(r, "absolute: ") && len(res.Failures) < 50 {
							res.Failures = append(res.Failures, J{"prop": "C18", "sig": "interference:shared-object:" + ps.Programs[g][i],
								"what": fmt.Sprintf("goroutine %d op %d (%s) of set %s: %s", g, i, ps.Programs[g][i], ps.ID, r[10:]), "replay": J{"fam": "race-set", "set": ps}})
							break
						}
					}
					if len(ref[g][i]) > 5 && ref[g][i][:5] == "infra" {
						res.Infra++
						res.InfraMsg = append(res.InfraMsg, ref[g][i])
					}
				}
			}
		}
		for _, a := range ps.Programs[0] {
			for _, p := range ps.Programs[1:] {
				for _, b := range p {
					pairs[a+"|"+b] = true
				}
			}
		}
		runtime.GOMAXPROCS(old)
	}
	if string(sharedWire) != string(sharedSnap) {
		res.Failures = append(res.Failures, J{"prop": "C18", "sig": "interference:shared-input-written",
			"what": "the read-only input slice shared by concurrent decoders was written during the run", "replay": J{"fam": "race-set"}})
	}
	if string(nonceArena) != string(nonceSnap) {
		res.Failures = append(res.Failures, J{"prop": "C18", "sig": "interference:shared-nonce-buffer-written",
			"what": "the buffer holding the (read-only) nonces of concurrent derivations was written during the run", "replay": J{"fam": "race-set"}})
	}
	if why := faultIsolation(*seed); why != "" {
		res.Failures = append(res.Failures, J{"prop": "C18", "sig": "interference:fault-not-isolated", "what": why, "replay": J{"fam": "race-set"}})
	}
	if randDup > 0 {
		res.Failures = append(res.Failures, J{"prop": "C18", "sig": "interference:random-number-repeated",
			"what": fmt.Sprintf("%d random numbers were handed out more than once while goroutines drew concurrently", randDup), "replay": J{"fam": "race-set"}})
	}
	res.Steps = totalOps
	res.Extra["random_numbers_drawn"] = len(randSeen)
	res.Extra["goroutines_run"] = goroutines
	res.Extra["operation_kind_pairs_overlapped"] = len(pairs)
	res.StepsBy["C18"] = totalOps
	res.WallS = time.Since(t0).Seconds()
	b, _ := json.MarshalIndent(res, "", " ")
	os.WriteFile(*out, b, 0o644)
	if res.Infra > 0 {
		return 2
	}
	if len(res.Failures) > 0 {
		return 1
	}
	return 0
}

// faultIsolation: a failure of the random source during ONE operation on ONE SA is reported by that operation and leaves
// nothing behind in the library: the same kinds of operations on other SAs (and on the same one) work afterwards.  Runs
// sequentially after the goroutines have finished (it replaces crypto/rand.Reader).
func faultIsolation(seed int64) string {
	e := newEnv(seed)
	mk := func(name string, salt int) string {
		suite := suiteByIndex(salt%9 + 1)
		o := actSaNew(e, J{"name": name, "suite": suite, "keys": patternKeys(suite, salt), "nospy": true})
		if o["infra"] != nil {
			return fmt.Sprint(o["infra"])
		}
		return ""
	}
	for i, n := range []string{"F1", "F2", "F3"} {
		if why := mk(n, 3+i); why != "" {
			return "" // not a verdict of this probe
		}
	}
	msg := J{"ispi": be(9, 8), "rspi": be(8, 8), "maj": 2, "min": 0, "xt": 37, "flags": 8, "mid": be(1, 4), "payloads": []any{J{"k": "NONCE", "data": fillPattern("seeded", 21, 5)}}}
	for failat := 0; failat < 4; failat++ {
		bad := actProtect(e, J{"sa": "F1", "role": true, "msg": msg, "rand": J{"mode": "fail", "seed": 1, "failat": failat}})
		if fo, _ := bad["faultok"].(bool); !fo {
			return fmt.Sprintf("a random-source failure at read %d of a protect operation was not reported as an error", failat)
		}
		for _, n := range []string{"F2", "F1", "F3"} {
			ok := actProtect(e, J{"sa": n, "role": n != "F3", "msg": msg, "rand": "system"})
			if er, _ := ok["err"].(bool); er {
				return fmt.Sprintf("after a random-source failure (read %d) during a protect on one SA, a protect on SA %s fails: %v", failat, n, ok["errmsg"])
			}
		}
		if x, err := security.GenerateRandomNumber(); err != nil || x == nil {
			return fmt.Sprintf("after a random-source failure during a protect, GenerateRandomNumber fails: %v", err)
		}
	}
	return ""
}

// cold start: the very first use of the library in a process is made by many goroutines at once -- look-ups in every algorithm
// registry by name and by transform.  Everything registered must be found by everyone (and the race detector stays silent).
func coldMain(argv []string) int {
	fs := flag.NewFlagSet("cold", flag.ExitOnError)
	n := fs.Int("n", 64, "goroutines")
	fs.Parse(argv)
	start := make(chan struct{})
	var wg sync.WaitGroup
	miss := make([]string, *n)
	for g := 0; g < *n; g++ {
		wg.Add(1)
		go func(g int) {
			defer wg.Done()
			defer func() {
				if r := recover(); r != nil {
					miss[g] = fmt.Sprintf("panic: %v", r)
				}
			}()
			<-start
			order := []int{0, 1, 2, 3}
			for k := 0; k < 4; k++ {
				switch order[(k+g)%4] {
				case 0:
					for _, nm := range dhNames {
						if dh.StrToType(nm) == nil {
							miss[g] += " dh:" + nm
						}
					}
					if dh.DecodeTransform(&message.Transform{TransformType: 4, TransformID: 14}) == nil {
						miss[g] += " dh-transform-14"
					}
				case 1:
					for _, nm := range encrNames {
						if encr.StrToType(nm) == nil || encr.StrToKType(nm) == nil {
							miss[g] += " encr:" + nm
						}
					}
				case 2:
					for _, nm := range integNames {
						if integ.StrToType(nm) == nil || integ.StrToKType(nm) == nil {
							miss[g] += " integ:" + nm
						}
					}
				case 3:
					for _, nm := range prfNames {
						if prf.StrToType(nm) == nil {
							miss[g] += " prf:" + nm
						}
					}
				}
			}
		}(g)
	}
	close(start)
	wg.Wait()
	bad := 0
	for g, m := range miss {
		if m != "" {
			bad++
			if bad <= 3 {
				fmt.Printf("COLD-MISS goroutine %d:%s\n", g, m)
			}
		}
	}
	if bad > 0 {
		return 1
	}
	return 0
}

func clip(s string) string {
	if len(s) > 160 {
		return s[:160] + "..."
	}
	return s
}
