package main

import (
	"bytes"
	"encoding/json"
	"fmt"
	"strconv"
)

// Oct is an octet string that (un)marshals as a JSON array of 0..255, the shape the TLA+ modules use.
// nil and empty both marshal as [] (DESIGN.md 4.1: "nil and empty slices both project to []").
type Oct []byte

func (o Oct) MarshalJSON() ([]byte, error) {
	var b bytes.Buffer
	b.Grow(2 + 4*len(o))
	b.WriteByte('[')
	for i, x := range o {
		if i > 0 {
			b.WriteByte(',')
		}
		b.WriteString(strconv.Itoa(int(x)))
	}
	b.WriteByte(']')
	return b.Bytes(), nil
}

func (o *Oct) UnmarshalJSON(d []byte) error {
	var xs []int
	if err := json.Unmarshal(d, &xs); err != nil {
		return err
	}
	out := make([]byte, len(xs))
	for i, x := range xs {
		if x < 0 || x > 255 {
			return fmt.Errorf("octet out of range: %d", x)
		}
		out[i] = byte(x)
	}
	*o = out
	return nil
}

func octOf(b []byte) Oct { return Oct(append([]byte{}, b...)) }

// anyToOct converts a decoded-JSON array ([]any of float64) to bytes.
func anyToOct(v any) (Oct, error) {
	switch t := v.(type) {
	case nil:
		return Oct{}, nil
	case Oct:
		return t, nil
	case []byte:
		return Oct(t), nil
	case []any:
		out := make([]byte, len(t))
		for i, x := range t {
			f, ok := x.(float64)
			if !ok || f < 0 || f > 255 || f != float64(int(f)) {
				return nil, fmt.Errorf("not an octet: %v", x)
			}
			out[i] = byte(f)
		}
		return out, nil
	}
	return nil, fmt.Errorf("not an octet string: %T", v)
}

func octToAny(b []byte) []any {
	out := make([]any, len(b))
	for i, x := range b {
		out[i] = float64(x)
	}
	return out
}

func u64of(o Oct) uint64 {
	var v uint64
	for _, x := range o {
		v = v<<8 | uint64(x)
	}
	return v
}

func u32of(o Oct) uint32 { return uint32(u64of(o)) }

func be(v uint64, n int) Oct {
	out := make(Oct, n)
	for i := n - 1; i >= 0; i-- {
		out[i] = byte(v)
		v >>= 8
	}
	return out
}
