package main

// Randomised drivers (DESIGN.md 4.3, source S2).  A driver performs calls on the real library and records
// one event per call; it draws NO conclusions: the trace specifications (TLC) judge the events.  Drivers
// reach sizes and contents the model's small constants cannot (random octets, lengths up to the 16-bit limit).

import (
	"bufio"
	"encoding/json"
	"flag"
	"fmt"
	"math/rand"
	"os"
	"time"
)

type DriveResult struct {
	Name     string   `json:"name"`
	Vectors  int      `json:"vectors"`
	Steps    int      `json:"steps"`
	Distinct int      `json:"distinct_vectors"`
	Events   int      `json:"events"`
	Infra    int      `json:"infra"`
	InfraMsg []string `json:"infra_msgs"`
	Failures []J      `json:"failures"`
	Extra    J        `json:"extra"`
	WallS    float64  `json:"wall_s"`
	StepsBy  J        `json:"steps_by_prop"`
}

type driverFn func(d *Drive)

type Drive struct {
	rng    *rand.Rand
	n      int
	seed   int64
	w      *bufio.Writer
	res    *DriveResult
	args   []string
	case_  int
	stepNo int
	byProp map[string]int
	hangs  int
	abort  bool // set after repeated hangs: a hung call keeps a core busy for ever, so the driver stops early; the hang events are in the trace and are judged there
}

var drivers = map[string]driverFn{}

func init() {
	commands["drive"] = driveMain
}

// call performs one act and records it as an event.
func (d *Drive) call(prop, act string, args J) J {
	e := newEnv(d.seed)
	obs := runAct(e, Step{Act: act, Prop: prop}, args)
	if h, _ := obs["hang"].(bool); h {
		d.hangs++
		if d.hangs >= 2 {
			d.abort = true
		}
	}
	d.stepNo++
	d.res.Steps++
	d.byProp[prop]++
	ev := J{"vid": fmt.Sprintf("%s-%d", d.res.Name, d.case_), "i": d.stepNo, "ev": act, "prop": prop, "args": args, "obs": stripBig(obs)}
	b, err := json.Marshal(ev)
	if err != nil {
		d.res.Infra++
		d.res.InfraMsg = append(d.res.InfraMsg, err.Error())
		return obs
	}
	d.w.Write(b)
	d.w.WriteByte('\n')
	d.res.Events++
	return obs
}

func (d *Drive) newCase() { d.case_++; d.stepNo = 0; d.res.Vectors++; d.res.Distinct++ }

func driveMain(argv []string) int {
	fs := flag.NewFlagSet("drive", flag.ExitOnError)
	name := fs.String("name", "", "driver")
	n := fs.Int("n", 100, "cases")
	seed := fs.Int64("seed", 1, "seed")
	trace := fs.String("trace", "", "trace output")
	out := fs.String("out", "", "result json")
	fs.Parse(argv)
	fn, ok := drivers[*name]
	if !ok {
		fmt.Fprintln(os.Stderr, "unknown driver", *name)
		return 2
	}
	t0 := time.Now()
	f, err := os.Create(*trace)
	if err != nil {
		fmt.Fprintln(os.Stderr, err)
		return 2
	}
	defer f.Close()
	w := bufio.NewWriterSize(f, 1<<20)
	res := &DriveResult{Name: *name, Extra: J{}}
	d := &Drive{rng: rand.New(rand.NewSource(*seed*7919 + 17)), n: *n, seed: *seed, w: w, res: res, args: fs.Args(), byProp: map[string]int{}}
	fn(d)
	w.Flush()
	res.WallS = time.Since(t0).Seconds()
	res.StepsBy = J{}
	for k, v := range d.byProp {
		res.StepsBy[k] = v
	}
	b, _ := json.MarshalIndent(res, "", " ")
	os.WriteFile(*out, b, 0o644)
	if res.Infra > 0 {
		return 2
	}
	if len(res.Failures) > 0 {
		return 1
	}
	return 0
}

// ------------------------------------------------------------------------------- random D-form values

type gen struct{ r *rand.Rand }

func (g gen) octs(n int) Oct {
	o := make(Oct, n)
	switch g.r.Intn(6) {
	case 0: // all zero
	case 1:
		for i := range o {
			o[i] = 0xff
		}
	default:
		g.r.Read(o)
	}
	return o
}

// size draws a length: mostly small, sometimes around interesting boundaries, rarely huge.
func (g gen) size(min, max int) int {
	if max < min {
		return min
	}
	var n int
	switch x := g.r.Intn(100); {
	case x < 60:
		n = min + g.r.Intn(24)
	case x < 85:
		b := []int{0, 1, 3, 4, 5, 15, 16, 17, 31, 32, 33, 255, 256, 257}
		n = b[g.r.Intn(len(b))]
	case x < 97:
		n = g.r.Intn(1200)
	default:
		n = g.r.Intn(max-min+1) + min
	}
	if n < min {
		n = min
	}
	if n > max {
		n = max
	}
	return n
}

func (g gen) u8() int {
	return []int{0, 1, 2, 127, 128, 255, g.r.Intn(256), g.r.Intn(256)}[g.r.Intn(8)]
}
func (g gen) u16() int {
	return []int{0, 1, 255, 256, 32767, 32768, 65535, g.r.Intn(65536), g.r.Intn(65536)}[g.r.Intn(9)]
}
func (g gen) u15() int {
	return []int{0, 1, 14, 127, 128, 142, 255, 256, 16383, 16385, 32766, 32767, g.r.Intn(32768)}[g.r.Intn(13)]
}

func (g gen) transform() J {
	tt := 1 + g.r.Intn(5)
	t := J{"c": tt, "tt": tt, "tid": g.u16(), "attr": "none", "at": 0, "av": 0, "avl": Oct{}}
	switch g.r.Intn(3) {
	case 1:
		t["attr"], t["at"], t["av"] = "tv", g.u15(), g.u16()
	case 2:
		t["attr"], t["at"], t["avl"] = "tlv", g.u15(), g.octs(g.size(1, 300))
	}
	return t
}

func (g gen) selector() J {
	if g.r.Intn(2) == 0 {
		return J{"tst": 7, "proto": g.u8(), "sp": g.u16(), "ep": g.u16(), "sa": g.octs(4), "ea": g.octs(4)}
	}
	return J{"tst": 8, "proto": g.u8(), "sp": g.u16(), "ep": g.u16(), "sa": g.octs(16), "ea": g.octs(16)}
}

var akaSettable = []int{1, 2, 3, 11, 23, 24, 134}

func (g gen) eap() J {
	switch g.r.Intn(6) {
	case 0:
		return J{"code": 3 + g.r.Intn(2), "id": g.u8(), "m": "none"}
	case 1, 2:
		m := []string{"identity", "notification", "nak"}[g.r.Intn(3)]
		return J{"code": 1 + g.r.Intn(2), "id": g.u8(), "m": m, "data": g.octs(g.size(1, 2000))}
	case 3:
		vid := []int{0, 1, 10415, 16777215, g.r.Intn(1 << 24)}[g.r.Intn(5)]
		return J{"code": 1 + g.r.Intn(2), "id": g.u8(), "m": "expanded", "vid": vid, "vtype": g.octs(4), "data": g.octs(g.size(0, 2000))}
	default:
		attrs := []any{}
		for _, t := range akaSettable { // ascending
			if g.r.Intn(2) == 0 {
				continue
			}
			var n int
			switch t {
			case 1, 2, 11:
				n = 16
			case 3:
				n = 4 + g.r.Intn(13)
			case 23:
				n = g.size(0, 300)
			case 24:
				n = 2
			case 134:
				n = []int{0, 20, 32}[g.r.Intn(3)]
			}
			attrs = append(attrs, J{"t": t, "v": g.octs(n)})
		}
		return J{"code": 1 + g.r.Intn(2), "id": g.u8(), "m": "aka", "sub": g.u8(), "attrs": attrs}
	}
}

func (g gen) payload() J {
	switch g.r.Intn(15) {
	case 0:
		props := []any{}
		for i, n := 0, g.r.Intn(4); i < n; i++ {
			trs := []any{}
			for j, m := 0, 1+g.r.Intn(6); j < m; j++ {
				trs = append(trs, g.transform())
			}
			// stable grouping by container, as the library's value holds them
			sorted := []any{}
			for c := 1; c <= 5; c++ {
				for _, t := range trs {
					if t.(J)["c"] == c {
						sorted = append(sorted, t)
					}
				}
			}
			props = append(props, J{"num": g.u8(), "proto": g.u8(), "spi": g.octs(g.size(0, 255)), "tr": sorted})
		}
		return J{"k": "SA", "props": props}
	case 1:
		return J{"k": "KE", "grp": g.u16(), "data": g.octs(g.size(1, 60000))}
	case 2:
		return J{"k": "IDi", "idt": g.u8(), "data": g.octs(g.size(1, 3000))}
	case 3:
		return J{"k": "IDr", "idt": g.u8(), "data": g.octs(g.size(1, 3000))}
	case 4:
		return J{"k": "CERT", "enc": g.u8(), "data": g.octs(g.size(1, 60000))}
	case 5:
		return J{"k": "CERTREQ", "enc": g.u8(), "data": g.octs(g.size(1, 3000))}
	case 6:
		return J{"k": "AUTH", "meth": g.u8(), "data": g.octs(g.size(1, 3000))}
	case 7:
		return J{"k": "NONCE", "data": g.octs(g.size(0, 3000))}
	case 8:
		return J{"k": "N", "proto": g.u8(), "ntype": g.u16(), "spi": g.octs(g.size(0, 255)), "data": g.octs(g.size(0, 3000))}
	case 9:
		if g.r.Intn(3) == 0 {
			return J{"k": "D", "proto": g.u8(), "spisz": 0, "num": 0, "spis": []any{}}
		}
		n := g.r.Intn(6)
		spis := []any{}
		for i := 0; i < n; i++ {
			spis = append(spis, g.octs(4))
		}
		return J{"k": "D", "proto": g.u8(), "spisz": 4, "num": n, "spis": spis}
	case 10:
		return J{"k": "V", "data": g.octs(g.size(0, 3000))}
	case 11, 12:
		sel := []any{}
		for i, n := 0, 1+g.r.Intn(4); i < n; i++ {
			sel = append(sel, g.selector())
		}
		return J{"k": []string{"TSi", "TSr"}[g.r.Intn(2)], "sel": sel}
	case 13:
		attrs := []any{}
		for i, n := 0, 1+g.r.Intn(4); i < n; i++ {
			attrs = append(attrs, J{"t": g.u15(), "v": g.octs(g.size(0, 400))})
		}
		return J{"k": "CP", "cft": g.u8(), "attrs": attrs}
	default:
		return J{"k": "EAP", "eap": g.eap()}
	}
}

func (g gen) message() J {
	ps := []any{}
	for i, n := 0, g.r.Intn(5); i < n; i++ {
		ps = append(ps, g.payload())
	}
	return J{"ispi": g.octs(8), "rspi": g.octs(8), "maj": g.r.Intn(16), "min": g.r.Intn(16), "xt": g.u8(), "flags": g.u8(),
		"mid": g.octs(4), "payloads": ps}
}

func init() {
	// random encodable messages: encode, decode what was encoded, re-encode (C03 C05 C12)
	drivers["randmsg"] = func(d *Drive) {
		g := gen{d.rng}
		for i := 0; i < d.n && !d.abort; i++ {
			d.newCase()
			m := g.message()
			o := d.call("C05", "encode", J{"msg": m})
			if w, ok := o["wire"]; ok {
				d.call("C03", "decode", J{"wire": w, "caps": true})
				d.call("C12", "reencode", J{"wire": w})
			}
		}
	}
	// random EAP packets (C14)
	drivers["randeap"] = func(d *Drive) {
		g := gen{d.rng}
		for i := 0; i < d.n && !d.abort; i++ {
			d.newCase()
			p := g.eap()
			o := d.call("C14", "eap_encode", J{"eap": p})
			if w, ok := o["wire"]; ok {
				d.call("C14", "eap_decode", J{"wire": w, "caps": true})
				d.call("C12", "eap_reencode", J{"wire": w})
			}
		}
	}
	// arbitrary octet strings and damaged valid encodings into every plain decoding entry point (C04)
	drivers["randbytes"] = func(d *Drive) {
		g := gen{d.rng}
		kinds := []string{"SA", "KE", "IDi", "IDr", "CERT", "CERTREQ", "AUTH", "NONCE", "N", "D", "V", "TSi", "TSr", "CP", "EAP", "SK",
			"eap_identity", "eap_notification", "eap_nak", "eap_expanded", "eap_aka"}
		for i := 0; i < d.n && !d.abort; i++ {
			d.newCase()
			var b Oct
			switch d.rng.Intn(4) {
			case 0: // pure noise
				b = g.octs(g.size(0, 65535))
			default: // a valid encoding, damaged
				m, err := buildMsg(g.message())
				if err != nil {
					continue
				}
				enc, err := m.Encode()
				if err != nil || len(enc) == 0 {
					continue
				}
				b = octOf(enc)
				for k, n := 0, 1+d.rng.Intn(3); k < n; k++ {
					switch d.rng.Intn(5) {
					case 0:
						b[d.rng.Intn(len(b))] = byte(g.u8())
					case 1:
						b[d.rng.Intn(len(b))] ^= 1 << uint(d.rng.Intn(8))
					case 2:
						b = b[:d.rng.Intn(len(b)+1)]
					case 3:
						b = append(b, g.octs(d.rng.Intn(9))...)
					case 4:
						if len(b) > 30 {
							j := 28 + d.rng.Intn(len(b)-29)
							v := g.u16()
							b[j], b[j+1] = byte(v>>8), byte(v)
						}
					}
					if len(b) == 0 {
						break
					}
				}
				if len(b) >= 28 && d.rng.Intn(3) > 0 { // keep the header length consistent most of the time
					n := len(b)
					b[24], b[25], b[26], b[27] = byte(n>>24), byte(n>>16), byte(n>>8), byte(n)
				}
			}
			d.call("C04", "decode", J{"wire": b, "caps": true})
			d.call("C04", "parse_header", J{"wire": b, "caps": true})
			if len(b) > 28 {
				d.call("C04", "decode_chain", J{"first": int(b[16]), "wire": b[28:], "caps": true})
				body := b[28:]
				if len(body) > 4 {
					body = body[4:]
				}
				d.call("C04", "decode_body", J{"kind": kinds[d.rng.Intn(len(kinds))], "wire": body, "caps": true})
				d.call("C04", "eap_decode", J{"wire": body, "caps": true})
			} else {
				d.call("C04", "decode_body", J{"kind": kinds[d.rng.Intn(len(kinds))], "wire": b, "caps": true})
				d.call("C04", "eap_decode", J{"wire": b, "caps": true})
			}
		}
	}
}
