package main

// Term evaluator (DESIGN.md 3.3 / 4.2).  The specification treats the cryptographic primitives as
// uninterpreted function symbols; expected values arrive as terms over them and are interpreted here
// with Go's standard library.  CBC is a textbook loop over Block.Encrypt/Decrypt so that it stays
// independent of the cipher.NewCBC* code the library itself calls.

import (
	"crypto/aes"
	"crypto/hmac"
	"crypto/md5"
	"crypto/sha1"
	"crypto/sha256"
	"fmt"
	"hash"
	"math/big"
)

type Env struct {
	raw   map[string]any // named terms not yet evaluated (lazily evaluated: they may refer to observations of earlier steps)
	defs  map[string]Oct
	obs   []J            // observation of every step executed so far in this vector
	objs  map[string]any // named Go objects created by steps
	seed  int64
	arena map[string][]byte // one long-lived input buffer per act, see present.go
	twins map[string]J      // the same arguments as the last call of an act, taken from the twin copy behind them
	used  map[string]int    // octets of the arena the last call's parameters occupy
	held  []*heldItem       // results handed out earlier
}

func newEnv(seed int64) *Env {
	return &Env{raw: map[string]any{}, defs: map[string]Oct{}, objs: map[string]any{}, seed: seed}
}

var termTags = map[string]bool{"dropend": true, "from": true, "lastn": true, "lit": true, "fill": true, "cat": true, "slice": true, "hmac": true, "cbc": true, "cbcdec": true,
	"modexp": true, "lpad": true, "var": true, "ref": true, "xor1": true, "flip": true, "overwrite": true, "findexp": true, "rnd": true}

func isTerm(v any) (J, bool) {
	m, ok := v.(J)
	if !ok {
		return nil, false
	}
	tag, ok := m["t"].(string)
	if !ok || !termTags[tag] {
		return nil, false
	}
	return m, true
}

func fillPattern(pat string, n, s int) Oct {
	out := make(Oct, n)
	for i := 1; i <= n; i++ {
		switch pat {
		case "zero":
			out[i-1] = 0
		case "ff":
			out[i-1] = 255
		case "ramp":
			out[i-1] = byte((s + i - 1) % 256)
		default: // "seeded" -- must equal Octets!Seeded
			out[i-1] = byte((s*31 + i*7 + (i/3)*13) % 256)
		}
	}
	return out
}

func hashOf(name string) (func() hash.Hash, error) {
	switch name {
	case "md5":
		return md5.New, nil
	case "sha1":
		return sha1.New, nil
	case "sha256":
		return sha256.New, nil
	}
	return nil, fmt.Errorf("unknown hash %q", name)
}

func cbcEncrypt(key, iv, pt []byte) (Oct, error) {
	blk, err := aes.NewCipher(key)
	if err != nil {
		return nil, err
	}
	if len(iv) != 16 || len(pt)%16 != 0 {
		return nil, fmt.Errorf("cbc: iv %d, pt %d", len(iv), len(pt))
	}
	out := make(Oct, len(pt))
	prev := append([]byte{}, iv...)
	for i := 0; i < len(pt); i += 16 {
		var x [16]byte
		for j := 0; j < 16; j++ {
			x[j] = pt[i+j] ^ prev[j]
		}
		blk.Encrypt(out[i:i+16], x[:])
		prev = out[i : i+16]
	}
	return out, nil
}

func cbcDecrypt(key, iv, ct []byte) (Oct, error) {
	blk, err := aes.NewCipher(key)
	if err != nil {
		return nil, err
	}
	if len(iv) != 16 || len(ct)%16 != 0 {
		return nil, fmt.Errorf("cbcdec: iv %d, ct %d", len(iv), len(ct))
	}
	out := make(Oct, len(ct))
	prev := iv
	for i := 0; i < len(ct); i += 16 {
		var x [16]byte
		blk.Decrypt(x[:], ct[i:i+16])
		for j := 0; j < 16; j++ {
			out[i+j] = x[j] ^ prev[j]
		}
		prev = ct[i : i+16]
	}
	return out, nil
}

func (e *Env) lookupRef(m J) (any, error) {
	step := gi(m, "step") // 1-based
	if step < 1 || step > len(e.obs) {
		return nil, fmt.Errorf("ref to step %d of %d", step, len(e.obs))
	}
	v, ok := e.obs[step-1][gs(m, "key")]
	if !ok {
		return nil, fmt.Errorf("ref: step %d has no %q", step, gs(m, "key"))
	}
	return v, nil
}

func (e *Env) evalTerm(v any) (Oct, error) {
	if m, ok := isTerm(v); ok {
		sub := func(k string) (Oct, error) { return e.evalTerm(m[k]) }
		switch m["t"].(string) {
		case "lit":
			return anyToOct(m["v"])
		case "fill":
			return fillPattern(gs(m, "pat"), gi(m, "n"), gi(m, "s")), nil
		case "cat":
			var out Oct
			for _, x := range gl(m, "a") {
				o, err := e.evalTerm(x)
				if err != nil {
					return nil, err
				}
				out = append(out, o...)
			}
			if out == nil {
				out = Oct{}
			}
			return out, nil
		case "slice":
			x, err := sub("x")
			if err != nil {
				return nil, err
			}
			off, n := gi(m, "off"), gi(m, "len")
			if off < 0 || n < 0 || off+n > len(x) {
				return nil, fmt.Errorf("slice [%d:+%d] of %d", off, n, len(x))
			}
			return octOf(x[off : off+n]), nil
		case "hmac":
			hf, err := hashOf(gs(m, "h"))
			if err != nil {
				return nil, err
			}
			key, err := sub("key")
			if err != nil {
				return nil, err
			}
			data, err := sub("data")
			if err != nil {
				return nil, err
			}
			h := hmac.New(hf, key)
			h.Write(data)
			return h.Sum(nil), nil
		case "cbc", "cbcdec":
			key, err := sub("key")
			if err != nil {
				return nil, err
			}
			iv, err := sub("iv")
			if err != nil {
				return nil, err
			}
			x, err := sub("x")
			if err != nil {
				return nil, err
			}
			if m["t"] == "cbc" {
				return cbcEncrypt(key, iv, x)
			}
			return cbcDecrypt(key, iv, x)
		case "modexp":
			b, err := sub("b")
			if err != nil {
				return nil, err
			}
			x, err := sub("e")
			if err != nil {
				return nil, err
			}
			mod, err := sub("m")
			if err != nil {
				return nil, err
			}
			r := new(big.Int).Exp(new(big.Int).SetBytes(b), new(big.Int).SetBytes(x), new(big.Int).SetBytes(mod))
			return Oct(r.Bytes()), nil
		case "lpad":
			x, err := sub("x")
			if err != nil {
				return nil, err
			}
			n := gi(m, "n")
			if len(x) >= n {
				return x, nil
			}
			return append(make(Oct, n-len(x)), x...), nil
		case "var":
			name := gs(m, "n")
			if o, ok := e.defs[name]; ok {
				return o, nil
			}
			rt, ok := e.raw[name]
			if !ok {
				return nil, fmt.Errorf("undefined term variable %q", name)
			}
			o, err := e.evalTerm(rt)
			if err != nil {
				return nil, fmt.Errorf("term variable %q: %v", name, err)
			}
			e.defs[name] = o
			return o, nil
		case "ref":
			r, err := e.lookupRef(m)
			if err != nil {
				return nil, err
			}
			return anyToOct(r)
		case "dropend", "from", "lastn": // x without its last n octets / x from offset off / the last n octets of x
			x, err := sub("x")
			if err != nil {
				return nil, err
			}
			n := gi(m, "n")
			if n < 0 || n > len(x) {
				return nil, fmt.Errorf("%s %d of %d", m["t"], n, len(x))
			}
			switch m["t"] {
			case "dropend":
				return octOf(x[:len(x)-n]), nil
			case "from":
				return octOf(x[n:]), nil
			}
			return octOf(x[len(x)-n:]), nil
		case "flip": // x with bit k (0 = least significant) of 0-based octet i complemented (i < 0: counted from the end)
			x, err := sub("x")
			if err != nil {
				return nil, err
			}
			i, k := gi(m, "i"), gi(m, "k")
			if i < 0 {
				i += len(x)
			}
			if i < 0 || i >= len(x) {
				return nil, fmt.Errorf("flip octet %d of %d", i, len(x))
			}
			out := octOf(x)
			out[i] ^= 1 << uint(k)
			return out, nil
		case "overwrite": // x with the octets v written at 0-based offset off
			x, err := sub("x")
			if err != nil {
				return nil, err
			}
			w, err := sub("v")
			if err != nil {
				return nil, err
			}
			off := gi(m, "off")
			if off < 0 || off+len(w) > len(x) {
				return nil, fmt.Errorf("overwrite [%d:+%d] of %d", off, len(w), len(x))
			}
			out := octOf(x)
			copy(out[off:], w)
			return out, nil
		case "findexp": // smallest exponent >= from whose public value g^x mod m has >= lz leading and >= tz trailing zero octets
			mod, err := sub("m")
			if err != nil {
				return nil, err
			}
			from, err := sub("from")
			if err != nil {
				return nil, err
			}
			P := new(big.Int).SetBytes(mod)
			x := new(big.Int).SetBytes(from)
			lz := gi(m, "lz")
			tz := 0
			if _, ok := m["tz"]; ok {
				tz = gi(m, "tz")
			}
			one := big.NewInt(1)
			g := big.NewInt(int64(gi(m, "g")))
			for i := 0; i < 1<<22; i++ {
				r := new(big.Int).Exp(g, x, P)
				rb := r.Bytes()
				nt := 0
				for nt < len(rb) && rb[len(rb)-1-nt] == 0 {
					nt++
				}
				if len(mod)-len(rb) >= lz && nt >= tz && len(rb) > 0 {
					return Oct(x.Bytes()), nil
				}
				x.Add(x, one)
			}
			return nil, fmt.Errorf("findexp: none found")
		}
	}
	return anyToOct(v)
}

// evalTree replaces every term inside a JSON tree by the octets it denotes; {"t":"ref"} to a non-octet
// observation is replaced by that observation.
func (e *Env) evalTree(v any) (any, error) {
	switch t := v.(type) {
	case J:
		if m, ok := isTerm(t); ok {
			if m["t"] == "ref" {
				r, err := e.lookupRef(m)
				if err != nil {
					return nil, err
				}
				return r, nil
			}
			return e.evalTerm(m)
		}
		out := J{}
		for k, x := range t {
			y, err := e.evalTree(x)
			if err != nil {
				return nil, err
			}
			out[k] = y
		}
		return out, nil
	case []any:
		out := make([]any, len(t))
		for i, x := range t {
			y, err := e.evalTree(x)
			if err != nil {
				return nil, err
			}
			out[i] = y
		}
		return out, nil
	}
	return v, nil
}

// eqJ compares an observation with an expectation: numbers by value, octet strings by content (Oct and
// JSON arrays interchangeably), records field by field with identical key sets.
func eqJ(got, want any) bool {
	switch w := want.(type) {
	case nil:
		return got == nil
	case bool:
		g, ok := got.(bool)
		return ok && g == w
	case string:
		g, ok := got.(string)
		return ok && g == w
	case float64:
		return numEq(got, w)
	case int:
		return numEq(got, float64(w))
	case Oct:
		return octEq(got, w)
	case []any:
		switch g := got.(type) {
		case Oct:
			return octEq(w, g)
		case []any:
			if len(g) != len(w) {
				return false
			}
			for i := range w {
				if !eqJ(g[i], w[i]) {
					return false
				}
			}
			return true
		}
		return false
	case J:
		if alts, ok := w["oneof"].([]any); ok && len(w) == 1 {
			for _, alt := range alts {
				if eqJ(got, alt) {
					return true
				}
			}
			return false
		}
		g, ok := got.(J)
		if !ok || len(g) != len(w) {
			return false
		}
		for k, x := range w {
			y, ok := g[k]
			if !ok || !eqJ(y, x) {
				return false
			}
		}
		return true
	}
	return false
}

func numEq(got any, w float64) bool {
	switch g := got.(type) {
	case float64:
		return g == w
	case int:
		return float64(g) == w
	}
	return false
}

func octEq(got any, w Oct) bool {
	switch g := got.(type) {
	case Oct:
		if len(g) != len(w) {
			return false
		}
		for i := range w {
			if g[i] != w[i] {
				return false
			}
		}
		return true
	case []any:
		if len(g) != len(w) {
			return false
		}
		for i := range w {
			f, ok := g[i].(float64)
			if !ok || f != float64(w[i]) {
				return false
			}
		}
		return true
	}
	return false
}
