package main

// Projection (DESIGN.md 4.1): Go value <-> JSON value of the spec's D-form.  This file is the only place
// that knows the library's struct field names.  It contains no protocol knowledge beyond field mapping.

import (
	"fmt"

	"github.com/free5gc/ike/eap"
	"github.com/free5gc/ike/message"
)

type J = map[string]any

func gi(d J, k string) int {
	switch t := d[k].(type) {
	case float64:
		return int(t)
	case int:
		return t
	}
	return 0
}
func gs(d J, k string) string { s, _ := d[k].(string); return s }
func gb(d J, k string) bool   { b, _ := d[k].(bool); return b }
func gl(d J, k string) []any  { l, _ := d[k].([]any); return l }
func gj(d J, k string) J      { j, _ := d[k].(J); return j }
func gox(d J, k string) Oct {
	o, err := anyToOct(d[k])
	if err != nil {
		panic(fmt.Sprintf("vector field %q: %v", k, err))
	}
	return o
}

// nilIfEmpty keeps the library's own convention for absent data (nil) when building values.
func nilIfEmpty(o Oct) []byte {
	if len(o) == 0 {
		return nil
	}
	return []byte(o)
}

// ---------------------------------------------------------------------------------- Go -> D-form

func projHeader(h *message.IKEHeader, out J) {
	out["ispi"] = be(h.InitiatorSPI, 8)
	out["rspi"] = be(h.ResponderSPI, 8)
	out["maj"] = int(h.MajorVersion)
	out["min"] = int(h.MinorVersion)
	out["xt"] = int(h.ExchangeType)
	out["flags"] = int(h.Flags)
	out["mid"] = be(uint64(h.MessageID), 4)
}

func projMsg(m *message.IKEMessage) J {
	out := J{}
	if m.IKEHeader != nil {
		projHeader(m.IKEHeader, out)
	}
	out["payloads"] = projChain(m.Payloads)
	return out
}

func projChain(c message.IKEPayloadContainer) []any {
	out := make([]any, 0, len(c))
	for _, p := range c {
		out = append(out, projPayload(p))
	}
	return out
}

func projTransforms(c int, ts message.TransformContainer, out []any) []any {
	for _, t := range ts {
		if t == nil {
			out = append(out, J{"c": c, "tt": 0, "tid": 0, "attr": "nil", "at": 0, "av": 0, "avl": Oct{}})
			continue
		}
		j := J{"c": c, "tt": int(t.TransformType), "tid": int(t.TransformID), "attr": "none", "at": 0, "av": 0, "avl": Oct{}}
		if t.AttributePresent {
			j["at"] = int(t.AttributeType)
			if t.AttributeFormat == message.AttributeFormatUseTV {
				j["attr"] = "tv"
				j["av"] = int(t.AttributeValue)
			} else {
				j["attr"] = "tlv"
				j["avl"] = octOf(t.VariableLengthAttributeValue)
			}
		}
		out = append(out, j)
	}
	return out
}

func projSelectors(ss message.IndividualTrafficSelectorContainer) []any {
	out := make([]any, 0, len(ss))
	for _, s := range ss {
		out = append(out, J{"tst": int(s.TSType), "proto": int(s.IPProtocolID), "sp": int(s.StartPort), "ep": int(s.EndPort),
			"sa": octOf(s.StartAddress), "ea": octOf(s.EndAddress)})
	}
	return out
}

func projEap(e *eap.EAP) J {
	if e == nil {
		return J{"m": "nil"}
	}
	out := J{"code": int(e.Code), "id": int(e.Identifier)}
	switch d := e.EapTypeData.(type) {
	case nil:
		out["m"] = "none"
	case *eap.EapIdentity:
		out["m"] = "identity"
		out["data"] = octOf(d.IdentityData)
	case *eap.EapNotification:
		out["m"] = "notification"
		out["data"] = octOf(d.NotificationData)
	case *eap.EapNak:
		out["m"] = "nak"
		out["data"] = octOf(d.NakData)
	case *eap.EapExpanded:
		out["m"] = "expanded"
		out["vid"] = int(d.VendorID)
		out["vtype"] = be(uint64(d.VendorType), 4)
		out["data"] = octOf(d.VendorData)
	case *eap.EapAkaPrime:
		out["m"] = "aka"
		out["sub"] = int(d.SubType())
		attrs := []any{}
		for t := 0; t < 256; t++ { // the public accessors are the observation point (C03/C14)
			a, err := d.GetAttr(eap.EapAkaPrimeAttrType(t))
			if err == nil {
				attrs = append(attrs, J{"t": t, "v": octOf(a.GetValue())})
			}
		}
		out["attrs"] = attrs
	default:
		out["m"] = fmt.Sprintf("go:%T", d)
	}
	return out
}

func projPayload(p message.IKEPayload) J {
	switch v := p.(type) {
	case *message.SecurityAssociation:
		props := []any{}
		for _, pr := range v.Proposals {
			trs := []any{}
			trs = projTransforms(1, pr.EncryptionAlgorithm, trs)
			trs = projTransforms(2, pr.PseudorandomFunction, trs)
			trs = projTransforms(3, pr.IntegrityAlgorithm, trs)
			trs = projTransforms(4, pr.DiffieHellmanGroup, trs)
			trs = projTransforms(5, pr.ExtendedSequenceNumbers, trs)
			props = append(props, J{"num": int(pr.ProposalNumber), "proto": int(pr.ProtocolID), "spi": octOf(pr.SPI), "tr": trs})
		}
		return J{"k": "SA", "props": props}
	case *message.KeyExchange:
		return J{"k": "KE", "grp": int(v.DiffieHellmanGroup), "data": octOf(v.KeyExchangeData)}
	case *message.IdentificationInitiator:
		return J{"k": "IDi", "idt": int(v.IDType), "data": octOf(v.IDData)}
	case *message.IdentificationResponder:
		return J{"k": "IDr", "idt": int(v.IDType), "data": octOf(v.IDData)}
	case *message.Certificate:
		return J{"k": "CERT", "enc": int(v.CertificateEncoding), "data": octOf(v.CertificateData)}
	case *message.CertificateRequest:
		return J{"k": "CERTREQ", "enc": int(v.CertificateEncoding), "data": octOf(v.CertificationAuthority)}
	case *message.Authentication:
		return J{"k": "AUTH", "meth": int(v.AuthenticationMethod), "data": octOf(v.AuthenticationData)}
	case *message.Nonce:
		return J{"k": "NONCE", "data": octOf(v.NonceData)}
	case *message.Notification:
		return J{"k": "N", "proto": int(v.ProtocolID), "ntype": int(v.NotifyMessageType), "spi": octOf(v.SPI), "data": octOf(v.NotificationData)}
	case *message.Delete:
		spis := []any{}
		for _, s := range v.SPIs {
			spis = append(spis, be(uint64(s), 4))
		}
		return J{"k": "D", "proto": int(v.ProtocolID), "spisz": int(v.SPISize), "num": int(v.NumberOfSPI), "spis": spis}
	case *message.VendorID:
		return J{"k": "V", "data": octOf(v.VendorIDData)}
	case *message.TrafficSelectorInitiator:
		return J{"k": "TSi", "sel": projSelectors(v.TrafficSelectors)}
	case *message.TrafficSelectorResponder:
		return J{"k": "TSr", "sel": projSelectors(v.TrafficSelectors)}
	case *message.Configuration:
		attrs := []any{}
		for _, a := range v.ConfigurationAttribute {
			attrs = append(attrs, J{"t": int(a.Type), "v": octOf(a.Value)})
		}
		return J{"k": "CP", "cft": int(v.ConfigurationType), "attrs": attrs}
	case *message.PayloadEap:
		return J{"k": "EAP", "eap": projEap(v.EAP)}
	case *message.Encrypted:
		return J{"k": "SK", "next": int(v.NextPayload), "data": octOf(v.EncryptedData)}
	}
	return J{"k": fmt.Sprintf("go:%T", p)}
}

// ---------------------------------------------------------------------------------- D-form -> Go

func buildHeader(d J) *message.IKEHeader {
	return &message.IKEHeader{
		InitiatorSPI: u64of(gox(d, "ispi")),
		ResponderSPI: u64of(gox(d, "rspi")),
		MajorVersion: uint8(gi(d, "maj")),
		MinorVersion: uint8(gi(d, "min")),
		ExchangeType: uint8(gi(d, "xt")),
		Flags:        uint8(gi(d, "flags")),
		MessageID:    u32of(gox(d, "mid")),
	}
}

func buildMsg(d J) (*message.IKEMessage, error) {
	c, err := buildChain(gl(d, "payloads"))
	if err != nil {
		return nil, err
	}
	return &message.IKEMessage{IKEHeader: buildHeader(d), Payloads: c}, nil
}

func buildChain(ps []any) (message.IKEPayloadContainer, error) {
	var c message.IKEPayloadContainer
	for _, x := range ps {
		p, err := buildPayload(x.(J))
		if err != nil {
			return nil, err
		}
		c = append(c, p)
	}
	return c, nil
}

func buildTransform(t J) *message.Transform {
	tr := &message.Transform{TransformType: uint8(gi(t, "tt")), TransformID: uint16(gi(t, "tid"))}
	switch gs(t, "attr") {
	case "tv":
		tr.AttributePresent = true
		tr.AttributeFormat = message.AttributeFormatUseTV
		tr.AttributeType = uint16(gi(t, "at"))
		tr.AttributeValue = uint16(gi(t, "av"))
	case "tlv":
		tr.AttributePresent = true
		tr.AttributeFormat = message.AttributeFormatUseTLV
		tr.AttributeType = uint16(gi(t, "at"))
		tr.VariableLengthAttributeValue = nilIfEmpty(gox(t, "avl"))
	}
	return tr
}

func buildSelectors(ss []any) message.IndividualTrafficSelectorContainer {
	var out message.IndividualTrafficSelectorContainer
	for _, x := range ss {
		s := x.(J)
		out = append(out, &message.IndividualTrafficSelector{TSType: uint8(gi(s, "tst")), IPProtocolID: uint8(gi(s, "proto")),
			StartPort: uint16(gi(s, "sp")), EndPort: uint16(gi(s, "ep")),
			StartAddress: nilIfEmpty(gox(s, "sa")), EndAddress: nilIfEmpty(gox(s, "ea"))})
	}
	return out
}

func buildEap(d J) (*eap.EAP, error) {
	e := &eap.EAP{Code: eap.EapCode(gi(d, "code")), Identifier: uint8(gi(d, "id"))}
	switch gs(d, "m") {
	case "none":
	case "identity":
		e.EapTypeData = &eap.EapIdentity{IdentityData: nilIfEmpty(gox(d, "data"))}
	case "notification":
		e.EapTypeData = &eap.EapNotification{NotificationData: nilIfEmpty(gox(d, "data"))}
	case "nak":
		e.EapTypeData = &eap.EapNak{NakData: nilIfEmpty(gox(d, "data"))}
	case "expanded":
		e.EapTypeData = &eap.EapExpanded{VendorID: uint32(gi(d, "vid")), VendorType: u32of(gox(d, "vtype")), VendorData: nilIfEmpty(gox(d, "data"))}
	case "aka":
		a := eap.NewEapAkaPrime(eap.EapAkaSubtype(gi(d, "sub")))
		for _, x := range gl(d, "attrs") {
			at := x.(J)
			if err := a.SetAttr(eap.EapAkaPrimeAttrType(gi(at, "t")), gox(at, "v")); err != nil {
				return nil, fmt.Errorf("SetAttr(%d, %d octets): %v", gi(at, "t"), len(gox(at, "v")), err)
			}
		}
		e.EapTypeData = a
	default:
		return nil, fmt.Errorf("cannot build EAP method %q", gs(d, "m"))
	}
	return e, nil
}

// poolTransforms lays the five transform lists of a proposal out in ONE backing array, each list a two-index slice of it
// (len < cap, the spare capacity of a list being the lists that follow): the way a caller that carves a proposal out of a
// transform pool holds them.  Reading the lists is unaffected; code that appends to a list it was handed writes into its
// neighbours, and encoding a message must not do that (C20).
func poolTransforms(pr *message.Proposal) {
	lists := []*message.TransformContainer{&pr.EncryptionAlgorithm, &pr.ExtendedSequenceNumbers, &pr.DiffieHellmanGroup, &pr.IntegrityAlgorithm, &pr.PseudorandomFunction}
	total := 0
	for _, l := range lists {
		total += len(*l)
	}
	pool := make(message.TransformContainer, total)
	off := 0
	for _, l := range lists {
		n := len(*l)
		if n == 0 {
			continue
		}
		copy(pool[off:], *l)
		*l = pool[off : off+n]
		off += n
	}
}

func buildPayload(d J) (message.IKEPayload, error) {
	switch gs(d, "k") {
	case "SA":
		sa := &message.SecurityAssociation{}
		for _, x := range gl(d, "props") {
			pj := x.(J)
			pr := &message.Proposal{ProposalNumber: uint8(gi(pj, "num")), ProtocolID: uint8(gi(pj, "proto")), SPI: nilIfEmpty(gox(pj, "spi"))}
			for _, y := range gl(pj, "tr") {
				tj := y.(J)
				tr := buildTransform(tj)
				c := gi(tj, "c")
				if c == 0 {
					c = gi(tj, "tt")
				}
				switch c {
				case 1:
					pr.EncryptionAlgorithm = append(pr.EncryptionAlgorithm, tr)
				case 2:
					pr.PseudorandomFunction = append(pr.PseudorandomFunction, tr)
				case 3:
					pr.IntegrityAlgorithm = append(pr.IntegrityAlgorithm, tr)
				case 4:
					pr.DiffieHellmanGroup = append(pr.DiffieHellmanGroup, tr)
				case 5:
					pr.ExtendedSequenceNumbers = append(pr.ExtendedSequenceNumbers, tr)
				default:
					return nil, fmt.Errorf("transform container %d", c)
				}
			}
			poolTransforms(pr)
			sa.Proposals = append(sa.Proposals, pr)
		}
		return sa, nil
	case "KE":
		return &message.KeyExchange{DiffieHellmanGroup: uint16(gi(d, "grp")), KeyExchangeData: nilIfEmpty(gox(d, "data"))}, nil
	case "IDi":
		return &message.IdentificationInitiator{IDType: uint8(gi(d, "idt")), IDData: nilIfEmpty(gox(d, "data"))}, nil
	case "IDr":
		return &message.IdentificationResponder{IDType: uint8(gi(d, "idt")), IDData: nilIfEmpty(gox(d, "data"))}, nil
	case "CERT":
		return &message.Certificate{CertificateEncoding: uint8(gi(d, "enc")), CertificateData: nilIfEmpty(gox(d, "data"))}, nil
	case "CERTREQ":
		return &message.CertificateRequest{CertificateEncoding: uint8(gi(d, "enc")), CertificationAuthority: nilIfEmpty(gox(d, "data"))}, nil
	case "AUTH":
		return &message.Authentication{AuthenticationMethod: uint8(gi(d, "meth")), AuthenticationData: nilIfEmpty(gox(d, "data"))}, nil
	case "NONCE":
		return &message.Nonce{NonceData: nilIfEmpty(gox(d, "data"))}, nil
	case "N":
		return &message.Notification{ProtocolID: uint8(gi(d, "proto")), NotifyMessageType: uint16(gi(d, "ntype")),
			SPI: nilIfEmpty(gox(d, "spi")), NotificationData: nilIfEmpty(gox(d, "data"))}, nil
	case "D":
		del := &message.Delete{ProtocolID: uint8(gi(d, "proto")), SPISize: uint8(gi(d, "spisz")), NumberOfSPI: uint16(gi(d, "num"))}
		for _, x := range gl(d, "spis") {
			o, err := anyToOct(x)
			if err != nil || len(o) != 4 {
				return nil, fmt.Errorf("Delete SPI is not 4 octets")
			}
			del.SPIs = append(del.SPIs, u32of(o))
		}
		return del, nil
	case "V":
		return &message.VendorID{VendorIDData: nilIfEmpty(gox(d, "data"))}, nil
	case "TSi":
		return &message.TrafficSelectorInitiator{TrafficSelectors: buildSelectors(gl(d, "sel"))}, nil
	case "TSr":
		return &message.TrafficSelectorResponder{TrafficSelectors: buildSelectors(gl(d, "sel"))}, nil
	case "CP":
		cp := &message.Configuration{ConfigurationType: uint8(gi(d, "cft"))}
		for _, x := range gl(d, "attrs") {
			a := x.(J)
			cp.ConfigurationAttribute = append(cp.ConfigurationAttribute,
				&message.IndividualConfigurationAttribute{Type: uint16(gi(a, "t")), Value: nilIfEmpty(gox(a, "v"))})
		}
		return cp, nil
	case "EAP":
		e, err := buildEap(gj(d, "eap"))
		if err != nil {
			return nil, err
		}
		return &message.PayloadEap{EAP: e}, nil
	case "SK":
		return &message.Encrypted{NextPayload: uint8(gi(d, "next")), EncryptedData: nilIfEmpty(gox(d, "data"))}, nil
	}
	return nil, fmt.Errorf("cannot build payload kind %q", gs(d, "k"))
}
