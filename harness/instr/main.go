// instr: source-level instrumentation for trace source S3 (DESIGN.md 4.3) WITHOUT touching /repo.
//
// For the packages of the library it produces instrumented COPIES of the source files (every target function F is renamed
// verifOrig_F and a wrapper F with the same signature calls it and reports arguments and results to a package-level hook
// variable), a tiny hook file per package, a projector package `verifproj` and one external test file per package that
// links the projector in.  The result is a Go build overlay (go test -overlay): the repository's own test suite then runs
// against the instrumented code and every call of a target function becomes a trace event.
package main

import (
	"bytes"
	"encoding/json"
	"flag"
	"fmt"
	"go/ast"
	"go/parser"
	"go/printer"
	"go/token"
	"os"
	"path/filepath"
	"strings"
)

var targetMethods = map[string]bool{"Marshal": true, "Unmarshal": true, "Encode": true, "Decode": true}
var targetFuncs = map[string]bool{"EncodeEncrypt": true, "DecodeDecrypt": true}

// packages to instrument: dir (relative to the repo root) -> import path suffix
var pkgs = []string{".", "message", "eap"}

func exprString(fset *token.FileSet, e ast.Expr) string {
	var b bytes.Buffer
	printer.Fprint(&b, fset, e)
	return b.String()
}

func main() {
	repo := flag.String("repo", "/repo", "repository root")
	out := flag.String("out", "", "output directory")
	projDir := flag.String("proj", "", "directory holding the projector sources (oct.go, proj.go) and s3 emitter template")
	flag.Parse()
	overlay := map[string]string{}
	must := func(err error) {
		if err != nil {
			fmt.Fprintln(os.Stderr, "instr:", err)
			os.Exit(2)
		}
	}
	must(os.MkdirAll(*out, 0o755))
	for _, rel := range pkgs {
		dir := filepath.Join(*repo, rel)
		fset := token.NewFileSet()
		ents, err := os.ReadDir(dir)
		must(err)
		var wrappers bytes.Buffer
		pkgName := ""
		imports := map[string]string{}
		nwrapped := 0
		for _, ent := range ents {
			n := ent.Name()
			if ent.IsDir() || !strings.HasSuffix(n, ".go") || strings.HasSuffix(n, "_test.go") {
				continue
			}
			src := filepath.Join(dir, n)
			f, err := parser.ParseFile(fset, src, nil, parser.ParseComments)
			must(err)
			pkgName = f.Name.Name
			changed := false
			for _, d := range f.Decls {
				fd, ok := d.(*ast.FuncDecl)
				if !ok || fd.Body == nil {
					continue
				}
				isTarget := (fd.Recv != nil && targetMethods[fd.Name.Name]) || (fd.Recv == nil && targetFuncs[fd.Name.Name])
				if !isTarget || fd.Type.TypeParams != nil {
					continue
				}
				name := fd.Name.Name
				// signature pieces
				var params, args []string
				pi := 0
				variadicLast := false
				if fd.Type.Params != nil {
					for _, fld := range fd.Type.Params.List {
						ts := exprString(fset, fld.Type)
						if _, isEll := fld.Type.(*ast.Ellipsis); isEll {
							variadicLast = true
						}
						cnt := len(fld.Names)
						if cnt == 0 {
							cnt = 1
						}
						for k := 0; k < cnt; k++ {
							pn := fmt.Sprintf("vp%d", pi)
							pi++
							params = append(params, pn+" "+ts)
							args = append(args, pn)
						}
					}
				}
				var results, rnames []string
				ri := 0
				if fd.Type.Results != nil {
					for _, fld := range fd.Type.Results.List {
						ts := exprString(fset, fld.Type)
						cnt := len(fld.Names)
						if cnt == 0 {
							cnt = 1
						}
						for k := 0; k < cnt; k++ {
							results = append(results, ts)
							rnames = append(rnames, fmt.Sprintf("vr%d", ri))
							ri++
						}
					}
				}
				recvDecl, recvName, qual := "", "", name
				if fd.Recv != nil && len(fd.Recv.List) == 1 {
					rt := exprString(fset, fd.Recv.List[0].Type)
					recvName = "vrecv"
					recvDecl = "(" + recvName + " " + rt + ") "
					qual = "(" + rt + ")." + name
				}
				callArgs := strings.Join(args, ", ")
				if variadicLast && len(args) > 0 {
					callArgs += "..."
				}
				callee := "verifOrig_" + name
				if recvName != "" {
					callee = recvName + "." + callee
				}
				in := append([]string{}, args...)
				if recvName != "" {
					in = append([]string{recvName}, in...)
				}
				fmt.Fprintf(&wrappers, "func %s%s(%s) (%s) {\n", recvDecl, name, strings.Join(params, ", "), strings.Join(results, ", "))
				if len(rnames) > 0 {
					fmt.Fprintf(&wrappers, "\t%s := %s(%s)\n", strings.Join(rnames, ", "), callee, callArgs)
				} else {
					fmt.Fprintf(&wrappers, "\t%s(%s)\n", callee, callArgs)
				}
				fmt.Fprintf(&wrappers, "\tif VerifEmit != nil {\n\t\tVerifEmit(%q, []any{%s}, []any{%s})\n\t}\n", pkgName+"."+qual, strings.Join(in, ", "), strings.Join(rnames, ", "))
				if len(rnames) > 0 {
					fmt.Fprintf(&wrappers, "\treturn %s\n", strings.Join(rnames, ", "))
				}
				fmt.Fprintf(&wrappers, "}\n\n")
				fd.Name.Name = "verifOrig_" + name
				changed = true
				nwrapped++
				// imports the wrapper's types may need
				for _, im := range f.Imports {
					path := strings.Trim(im.Path.Value, "\"")
					alias := ""
					if im.Name != nil {
						alias = im.Name.Name
					}
					imports[path] = alias
				}
			}
			if changed {
				var b bytes.Buffer
				must(printer.Fprint(&b, fset, f))
				dst := filepath.Join(*out, "src", rel, n)
				must(os.MkdirAll(filepath.Dir(dst), 0o755))
				must(os.WriteFile(dst, b.Bytes(), 0o644))
				overlay[src] = dst
			}
		}
		if nwrapped == 0 {
			continue
		}
		// wrapper file: only the imports its signatures mention
		var hdr bytes.Buffer
		fmt.Fprintf(&hdr, "package %s\n\n", pkgName)
		wsrc := wrappers.String()
		var imps []string
		for path, alias := range imports {
			base := alias
			if base == "" {
				base = path[strings.LastIndex(path, "/")+1:]
			}
			if strings.Contains(wsrc, base+".") {
				if alias != "" {
					imps = append(imps, fmt.Sprintf("\t%s %q", alias, path))
				} else {
					imps = append(imps, fmt.Sprintf("\t%q", path))
				}
			}
		}
		if len(imps) > 0 {
			fmt.Fprintf(&hdr, "import (\n%s\n)\n\n", strings.Join(imps, "\n"))
		}
		fmt.Fprintf(&hdr, "// VerifEmit is set by the projector linked into the test binary (trace source S3).\nvar VerifEmit func(name string, in []any, out []any)\n\n")
		wdst := filepath.Join(*out, "src", rel, "zz_verif_wrappers.go")
		must(os.MkdirAll(filepath.Dir(wdst), 0o755))
		must(os.WriteFile(wdst, append(hdr.Bytes(), wrappers.Bytes()...), 0o644))
		overlay[filepath.Join(dir, "zz_verif_wrappers.go")] = wdst
		// external test file that links the projector in
		tdst := filepath.Join(*out, "src", rel, "zz_verif_hook_test.go")
		must(os.WriteFile(tdst, []byte(fmt.Sprintf("package %s_test\n\nimport _ \"github.com/free5gc/ike/verifproj\"\n", pkgName)), 0o644))
		overlay[filepath.Join(dir, "zz_verif_hook_test.go")] = tdst
	}
	// projector package
	pdst := filepath.Join(*out, "src", "verifproj")
	must(os.MkdirAll(pdst, 0o755))
	for _, n := range []string{"oct.go", "proj.go"} {
		b, err := os.ReadFile(filepath.Join(*projDir, n))
		must(err)
		b = bytes.Replace(b, []byte("package main"), []byte("package verifproj"), 1)
		must(os.WriteFile(filepath.Join(pdst, n), b, 0o644))
		overlay[filepath.Join(*repo, "verifproj", n)] = filepath.Join(pdst, n)
	}
	b, err := os.ReadFile(filepath.Join(*projDir, "s3tmpl", "emit.go.txt"))
	must(err)
	must(os.WriteFile(filepath.Join(pdst, "emit.go"), b, 0o644))
	overlay[filepath.Join(*repo, "verifproj", "emit.go")] = filepath.Join(pdst, "emit.go")
	ob, _ := json.MarshalIndent(map[string]any{"Replace": overlay}, "", " ")
	must(os.WriteFile(filepath.Join(*out, "overlay.json"), ob, 0o644))
	fmt.Println("instr: overlay with", len(overlay), "files")
}
