package main

// Acts of the codec family (CodecLife / DecoderCursor in the specification).

import (
	"encoding/json"
	"fmt"
	"runtime/debug"

	"github.com/free5gc/ike/eap"
	"github.com/free5gc/ike/message"
)

func init() {
	acts["encode"] = actEncode
	acts["encode_chain"] = actEncodeChain
	acts["decode"] = actDecode
	acts["decode_chain"] = actDecodeChain
	acts["decode_used"] = actDecodeUsed
	acts["decode_body"] = actDecodeBody
	acts["parse_header"] = actParseHeader
	acts["reencode"] = actReencode
	acts["eap_encode"] = actEapEncode
	acts["eap_decode"] = actEapDecode
	acts["eap_reencode"] = actEapReencode
	acts["msgobj_set"] = actMsgObjSet
	acts["msgobj_encode"] = actMsgObjEncode
	acts["eapobj_decode"] = actEapObjDecode
	acts["eapobj_encode"] = actEapObjEncode
}

// ---- long-lived objects that are used again (ObjHist.tla): one IKEMessage and one EAP object per behaviour

// msgobj_set makes the retained message object hold the given message the way a caller re-using a request object for the
// next message does: header fields assigned one by one on the SAME header object, the SAME container emptied with Reset and
// filled again.
func actMsgObjSet(e *Env, a J) J {
	m, err := buildMsg(gj(a, "msg"))
	if err != nil {
		return J{"infra": "msgobj_set: " + err.Error()}
	}
	obj, _ := e.objs["msgobj"].(*message.IKEMessage)
	if obj == nil {
		e.objs["msgobj"] = m
		return J{"err": false}
	}
	h, n := obj.IKEHeader, m.IKEHeader
	h.InitiatorSPI, h.ResponderSPI, h.MajorVersion, h.MinorVersion = n.InitiatorSPI, n.ResponderSPI, n.MajorVersion, n.MinorVersion
	h.ExchangeType, h.Flags, h.MessageID, h.NextPayload = n.ExchangeType, n.Flags, n.MessageID, n.NextPayload
	obj.Payloads.Reset()
	obj.Payloads = append(obj.Payloads, m.Payloads...)
	return J{"err": false}
}

func actMsgObjEncode(e *Env, a J) J {
	obj, _ := e.objs["msgobj"].(*message.IKEMessage)
	if obj == nil {
		return J{"infra": "msgobj_encode: no object"}
	}
	w, err := obj.Encode()
	o := errObs(err)
	if err == nil {
		o["wire"] = octOf(w)
	}
	return o
}

func actEapObjDecode(e *Env, a J) J {
	obj, _ := e.objs["eapobj"].(*eap.EAP)
	if obj == nil {
		obj = new(eap.EAP)
		e.objs["eapobj"] = obj
	}
	err := obj.Unmarshal(layouts(gox(a, "wire"), false)[0])
	o := errObs(err)
	if err == nil {
		o["eap"] = projEap(obj)
	}
	return o
}

func actEapObjEncode(e *Env, a J) J {
	obj, _ := e.objs["eapobj"].(*eap.EAP)
	if obj == nil {
		return J{"infra": "eapobj_encode: no object"}
	}
	w, err := marshalGuarded(obj)
	o := errObs(err)
	if err == nil {
		o["wire"] = octOf(w)
	}
	return o
}

// ---- capacity layouts (C04: the outcome must depend on the visible octets only)

// layouts returns the same visible octets three times: exact capacity, spare capacity of zeros, spare
// capacity holding a plausible continuation (a copy of the visible octets followed by 0xff).
func layouts(b []byte, all bool) [][]byte {
	n := len(b)
	exact := make([]byte, n)
	copy(exact, b)
	exact = exact[:n:n]
	if !all {
		return [][]byte{exact}
	}
	z := make([]byte, n+96)
	copy(z, b)
	c := make([]byte, n+96)
	copy(c, b)
	for i := n; i < len(c); i++ {
		if i-n < n {
			c[i] = b[i-n]
		} else {
			c[i] = 0xff
		}
	}
	return [][]byte{exact, z[:n], c[:n]}
}

// overLayouts runs f on every layout, each under its own recover; the observation is that of the first
// layout, plus "capdiff" if any two layouts disagree, plus "panic" if any panicked.
func overLayouts(b []byte, all bool, f func([]byte) J) J {
	var outs []J
	for li, lb := range layouts(b, all) {
		o := func() (o J) {
			defer func() {
				if r := recover(); r != nil {
					o = J{"panic": true, "panicmsg": fmt.Sprintf("layout %d: %v", li, r), "stack": string(debug.Stack())}
				}
			}()
			o = f(lb)
			o["panic"] = false
			return o
		}()
		outs = append(outs, o)
	}
	res := outs[0]
	res["capdiff"] = false
	for _, o := range outs[1:] {
		if o["panic"] == true && res["panic"] != true {
			res["panic"] = true
			res["panicmsg"] = o["panicmsg"]
			res["stack"] = o["stack"]
		}
		a, _ := json.Marshal(stripDiag(outs[0]))
		c, _ := json.Marshal(stripDiag(o))
		if string(a) != string(c) {
			res["capdiff"] = true
		}
	}
	return res
}

func stripDiag(o J) J {
	out := J{}
	for k, v := range o {
		if k == "panicmsg" || k == "capdiff" || k == "errmsg" || k == "stack" {
			continue
		}
		out[k] = v
	}
	return out
}

func errObs(err error) J {
	if err != nil {
		return J{"err": true, "errmsg": err.Error()}
	}
	return J{"err": false}
}

// ---- acts

func actEncode(e *Env, a J) J {
	m, err := buildMsg(gj(a, "msg"))
	if err != nil {
		return J{"err": true, "builderr": err.Error()}
	}
	b, err := m.Encode()
	o := errObs(err)
	if err == nil {
		o["wire"] = octOf(b)
	}
	// fields of a value the wire format has no place for cannot influence its encoding: the same message with something
	// left in them (a variable-length value on a TV attribute, a value on an absent attribute) encodes to the same octets,
	// or is refused
	o["junkok"] = true
	if m2, err2 := buildMsg(gj(a, "msg")); err2 == nil && err == nil && junkify(m2) {
		if b2, e2 := m2.Encode(); e2 == nil && string(b2) != string(b) {
			o["junkok"] = false
		}
	}
	return o
}

// junkify fills the don't-care fields of SA transforms; false if the message has none.
func junkify(m *message.IKEMessage) bool {
	any := false
	for _, p := range m.Payloads {
		sa, ok := p.(*message.SecurityAssociation)
		if !ok {
			continue
		}
		for _, pr := range sa.Proposals {
			for _, tc := range []message.TransformContainer{pr.EncryptionAlgorithm, pr.PseudorandomFunction, pr.IntegrityAlgorithm, pr.DiffieHellmanGroup, pr.ExtendedSequenceNumbers} {
				for _, t := range tc {
					any = true
					switch {
					case !t.AttributePresent:
						t.AttributeFormat, t.AttributeType, t.AttributeValue, t.VariableLengthAttributeValue = 1, 14, 256, []byte{9, 9, 9}
					case t.AttributeFormat == message.AttributeFormatUseTV:
						t.VariableLengthAttributeValue = []byte{7, 7, 7, 7, 7}
					default:
						t.AttributeValue = 0x1234
					}
				}
			}
		}
	}
	return any
}

func actEncodeChain(e *Env, a J) J {
	c, err := buildChain(gl(a, "payloads"))
	if err != nil {
		return J{"err": true, "builderr": err.Error()}
	}
	b, err := c.Encode()
	o := errObs(err)
	if err == nil {
		o["wire"] = octOf(b)
	}
	return o
}

func actDecode(e *Env, a J) J {
	return overLayouts(gox(a, "wire"), gb(a, "caps"), func(b []byte) J {
		m := new(message.IKEMessage)
		err := m.Decode(b)
		o := errObs(err)
		if err == nil {
			o["msg"] = projMsg(m)
		}
		return o
	})
}

// actDecodeUsed: a message object (and a payload container) that already received one datagram receives another one; whatever the
// library does with what the object held (append, replace), it does the same whether or not the second datagram carries a
// payload that is skipped: the outcome with `wire` equals the outcome with `plain` (the same datagram without that payload)
func actDecodeUsed(e *Env, a J) J {
	first, w, plain := []byte(gox(a, "first")), []byte(gox(a, "wire")), []byte(gox(a, "plain"))
	run := func(second []byte) (string, string) {
		m := new(message.IKEMessage)
		_ = m.Decode(append([]byte{}, first...))
		err := m.Decode(append([]byte{}, second...))
		var c message.IKEPayloadContainer
		if len(first) >= 28 {
			_ = c.Decode(first[16], append([]byte{}, first[28:]...))
		}
		var err2 error
		if len(second) >= 28 {
			err2 = c.Decode(second[16], append([]byte{}, second[28:]...))
		}
		return digest(J{"err": err != nil, "payloads": projChain(m.Payloads)}), digest(J{"err": err2 != nil, "payloads": projChain(c)})
	}
	m1, c1 := run(w)
	m2, c2 := run(plain)
	o := J{"usedsame": m1 == m2 && c1 == c2}
	if m1 != m2 {
		o["useddiff"] = "message: " + m1 + " / " + m2
	} else if c1 != c2 {
		o["useddiff"] = "container: " + c1 + " / " + c2
	}
	return o
}

func actDecodeChain(e *Env, a J) J {
	first := uint8(gi(a, "first"))
	return overLayouts(gox(a, "wire"), gb(a, "caps"), func(b []byte) J {
		var c message.IKEPayloadContainer
		err := c.Decode(first, b)
		o := errObs(err)
		if err == nil {
			o["payloads"] = projChain(c)
		}
		return o
	})
}

func newPayload(kind string) message.IKEPayload {
	switch kind {
	case "SA":
		return new(message.SecurityAssociation)
	case "KE":
		return new(message.KeyExchange)
	case "IDi":
		return new(message.IdentificationInitiator)
	case "IDr":
		return new(message.IdentificationResponder)
	case "CERT":
		return new(message.Certificate)
	case "CERTREQ":
		return new(message.CertificateRequest)
	case "AUTH":
		return new(message.Authentication)
	case "NONCE":
		return new(message.Nonce)
	case "N":
		return new(message.Notification)
	case "D":
		return new(message.Delete)
	case "V":
		return new(message.VendorID)
	case "TSi":
		return new(message.TrafficSelectorInitiator)
	case "TSr":
		return new(message.TrafficSelectorResponder)
	case "CP":
		return new(message.Configuration)
	case "EAP":
		return message.NewPayloadEap()
	case "SK":
		return new(message.Encrypted)
	}
	return nil
}

func actDecodeBody(e *Env, a J) J {
	kind := gs(a, "kind")
	return overLayouts(gox(a, "wire"), gb(a, "caps"), func(b []byte) J {
		var err error
		var proj J
		switch kind {
		case "eap_identity", "eap_notification", "eap_nak", "eap_expanded", "eap_aka":
			var td eap.EapTypeData
			switch kind {
			case "eap_identity":
				td = new(eap.EapIdentity)
			case "eap_notification":
				td = new(eap.EapNotification)
			case "eap_nak":
				td = new(eap.EapNak)
			case "eap_expanded":
				td = new(eap.EapExpanded)
			default:
				td = new(eap.EapAkaPrime)
			}
			err = td.Unmarshal(b)
			if err == nil {
				proj = projEap(&eap.EAP{EapTypeData: td})
			}
		default:
			p := newPayload(kind)
			if p == nil {
				return J{"infra": "decode_body kind " + kind}
			}
			err = p.Unmarshal(b)
			if err == nil {
				proj = projPayload(p)
			}
		}
		o := errObs(err)
		if err == nil {
			o["payload"] = proj
		}
		return o
	})
}

func actParseHeader(e *Env, a J) J {
	return overLayouts(gox(a, "wire"), gb(a, "caps"), func(b []byte) J {
		h, err := message.ParseHeader(b)
		o := errObs(err)
		if err == nil {
			hj := J{}
			projHeader(h, hj)
			hj["next"] = int(h.NextPayload)
			hj["rest"] = octOf(h.PayloadBytes)
			o["hdr"] = hj
		}
		return o
	})
}

// actReencode observes the decode / encode / decode / encode chain of C12 on the real decoded object.
func actReencode(e *Env, a J) J {
	wire := gox(a, "wire")
	o := J{"c12": "na"}
	m1 := new(message.IKEMessage)
	in := layouts(wire, false)[0]
	if err := m1.Decode(in); err != nil {
		o["dec1"] = false
		return o
	}
	o["dec1"] = true
	o["msg1"] = projMsg(m1)
	w1, err := encodeGuarded(m1)
	if err != nil {
		o["enc1"] = false
		o["enc1msg"] = err.Error()
		return o
	}
	o["enc1"] = true
	o["wire1"] = octOf(w1)
	o["same"] = string(w1) == string(wire)
	m2 := new(message.IKEMessage)
	if err := m2.Decode(layouts(w1, false)[0]); err != nil {
		o["c12"] = "dec2-error"
		return o
	}
	o["msg2"] = projMsg(m2)
	if !eqJ(o["msg2"], o["msg1"]) {
		o["c12"] = "msg-differs"
		o["sig"] = "c12@msg-differs:" + diffPath(o["msg2"], o["msg1"], "msg")
		if skNotLastOnly(m1, m2) {
			// known finding F-C12-1: the only difference is Encrypted.NextPayload of an SK payload that is not the last
			// payload of the message (RFC 7296 3.14 requires it to be last)
			o["c12"] = "msg-differs:sk-not-last"
			o["sig"] = "c12@msg-differs:sk-not-last"
		}
		return o
	}
	w2, err := encodeGuarded(m2)
	if err != nil {
		o["c12"] = "enc2-error"
		return o
	}
	o["wire2"] = octOf(w2)
	if string(w2) != string(w1) {
		o["c12"] = "wire-differs"
		return o
	}
	o["c12"] = "ok"
	return o
}

// skNotLastOnly: the two messages are equal once Encrypted.NextPayload of every SK payload that is followed by another
// payload is disregarded (and they are not equal otherwise; the caller has established that).
func skNotLastOnly(m1, m2 *message.IKEMessage) bool {
	if len(m1.Payloads) != len(m2.Payloads) {
		return false
	}
	saved := map[*message.Encrypted]uint8{}
	for _, m := range []*message.IKEMessage{m1, m2} {
		for i, p := range m.Payloads {
			if sk, ok := p.(*message.Encrypted); ok && i+1 < len(m.Payloads) {
				saved[sk] = sk.NextPayload
				sk.NextPayload = 0
			}
		}
	}
	same := len(saved) > 0 && eqJ(projMsg(m1), projMsg(m2))
	for sk, v := range saved {
		sk.NextPayload = v
	}
	return same
}

// encodeGuarded: C12 is conditional on "that message encodes again"; an encoder panic on a decoded value is
// reported as "does not encode" (and noted), not as a C12 violation (DESIGN.md section 6, C12).
func encodeGuarded(m *message.IKEMessage) (b []byte, err error) {
	defer func() {
		if r := recover(); r != nil {
			err = fmt.Errorf("encoder panic: %v", r)
		}
	}()
	return m.Encode()
}

// ---- EAP

func actEapEncode(e *Env, a J) J {
	p, err := buildEap(gj(a, "eap"))
	if err != nil {
		return J{"err": true, "builderr": err.Error()}
	}
	b, err := p.Marshal()
	o := errObs(err)
	if err == nil {
		o["wire"] = octOf(b)
		o["got"] = projEap(p) // GetAttr on the freshly built packet (C14: "freshly set")
		b2, err2 := p.Marshal()
		o["twice"] = err2 == nil && string(b2) == string(b)
	}
	return o
}

func actEapDecode(e *Env, a J) J {
	return overLayouts(gox(a, "wire"), gb(a, "caps"), func(b []byte) J {
		p := new(eap.EAP)
		err := p.Unmarshal(b)
		o := errObs(err)
		if err == nil {
			o["eap"] = projEap(p)
		}
		return o
	})
}

func actEapReencode(e *Env, a J) J {
	wire := gox(a, "wire")
	o := J{"c12": "na"}
	p1 := new(eap.EAP)
	if err := p1.Unmarshal(layouts(wire, false)[0]); err != nil {
		o["dec1"] = false
		return o
	}
	o["dec1"] = true
	o["eap1"] = projEap(p1)
	w1, err := marshalGuarded(p1)
	if err != nil {
		o["enc1"] = false
		return o
	}
	o["enc1"] = true
	o["wire1"] = octOf(w1)
	o["same"] = string(w1) == string(wire)
	// C20: encoding is a function of the value -- the same object encoded again and again gives the same octets
	o["stable"] = true
	for k := 0; k < 8; k++ {
		if wk, err := marshalGuarded(p1); err != nil || string(wk) != string(w1) {
			o["stable"] = false
		}
	}
	p2 := new(eap.EAP)
	if err := p2.Unmarshal(layouts(w1, false)[0]); err != nil {
		o["c12"] = "dec2-error"
		return o
	}
	o["eap2"] = projEap(p2)
	if !eqJ(o["eap2"], o["eap1"]) {
		o["c12"] = "msg-differs"
		o["sig"] = "c12@msg-differs:" + diffPath(o["eap2"], o["eap1"], "eap")
		return o
	}
	w2, err := marshalGuarded(p2)
	if err != nil {
		o["c12"] = "enc2-error"
		return o
	}
	if string(w2) != string(w1) {
		o["c12"] = "wire-differs"
		return o
	}
	o["c12"] = "ok"
	return o
}

func marshalGuarded(p *eap.EAP) (b []byte, err error) {
	defer func() {
		if r := recover(); r != nil {
			err = fmt.Errorf("encoder panic: %v", r)
		}
	}()
	return p.Marshal()
}
