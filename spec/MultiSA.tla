------------------------------- MODULE MultiSA -------------------------------
(***************************************************************************)
(* Several SA objects alive at the same time on ONE thread (C07 C08 C11    *)
(* C17): a gateway negotiates the next SA before it has used the previous  *)
(* one.  Every object is created from ITS proposal (algorithms, key sizes) *)
(* and used later; what a use observes must be a function of the object's  *)
(* own proposal, whatever was created or used in between.                  *)
(*                                                                         *)
(* The mechanism that makes this true is that an object owns the           *)
(* description of its algorithms (immutable type objects, or a copy per    *)
(* object).  Knob TypesPerObject = FALSE models a decoder that writes the  *)
(* negotiated key size into ONE shared type object and hands that out:     *)
(* the invariant must then fail (sanity run).                              *)
(*                                                                         *)
(* Gen_MultiSA prints every behaviour of this machine as a vector; the     *)
(* replayer runs it on real Child SA / IKE SA objects.                     *)
(***************************************************************************)
EXTENDS Naturals, Sequences, FiniteSets

CONSTANTS NObj,            \* number of objects
          MaxOps,          \* length bound of a behaviour
          TypesPerObject,  \* BOOLEAN: an object owns its algorithm description
          UseOnce          \* BOOLEAN: an object is used at most once (a Child SA object is keyed once; an IKE SA object is probed again and again)

VARIABLES created,   \* set of objects created so far
          shared,    \* what the one shared type object says (parameter index), 0 = nothing yet
          seen,      \* obj -> parameter index observed at its last use (0 = never used)
          ops        \* history: << <<"new", o>>, <<"use", o>>, ... >>

Objs == 1..NObj
Param(o) == o            \* every object is created with parameters of its own

Init == created = {} /\ shared = 0 /\ seen = [o \in Objs |-> 0] /\ ops = << >>
New(o) == /\ o \notin created /\ Len(ops) < MaxOps
          /\ created' = created \cup {o}
          /\ shared' = Param(o)
          /\ UNCHANGED seen
          /\ ops' = Append(ops, << "new", o >>)
Use(o) == /\ o \in created /\ Len(ops) < MaxOps /\ (UseOnce => seen[o] = 0)
          /\ seen' = [seen EXCEPT ![o] = IF TypesPerObject THEN Param(o) ELSE shared]
          /\ UNCHANGED << created, shared >>
          /\ ops' = Append(ops, << "use", o >>)
Next == \E o \in Objs : New(o) \/ Use(o)

OwnParams == \A o \in Objs : seen[o] \in {0, Param(o)}
=============================================================================
