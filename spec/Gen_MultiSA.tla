----------------------------- MODULE Gen_MultiSA -----------------------------
(* Every behaviour of MultiSA (objects created from different proposals, used in every order) as a vector on real objects:            *)
(*   kind "child": Child SA objects from ESP proposals of different key sizes / integrity algorithms (NewChildSAKeyByProposal, over   *)
(*                 the wire), keyed later on one IKE SA: the keys are the RFC 7296 2.17 terms for the object's OWN sizes (C08);       *)
(*   kind "ike":   IKE SA objects from IKE proposals of different suites and groups (NewIKESAKey keys them at once), probed later:    *)
(*                 the seven keys and seven ready-to-use objects are those of the object's OWN suite (C07).                           *)
EXTENDS KeyLife, Pools
CONSTANTS NObj, MaxOps, Kind, PropId
VARIABLES created, shared, seen, ops
M == INSTANCE MultiSA WITH TypesPerObject <- TRUE, UseOnce <- (Kind = "child")

EncrOf(o) == << 128, 256, 192 >>[((o - 1) % 3) + 1]
IntegOf(o) == << "md5", "sha256", "sha1" >>[((o - 1) % 3) + 1]
PrfOfObj(o) == << "sha1", "md5", "sha256" >>[((o - 1) % 3) + 1]
GrpOf(o) == IF o % 2 = 0 THEN 14 ELSE 2
SuiteOf(o) == Suite(EncrOf(o), IntegOf(o), PrfOfObj(o))
Nm(o) == "O" \o ToString(o)
ViaOf(o) == << "proposal", "proposal-dh14", "proposal-dh2" >>[((o - 1) % 3) + 1]

\* ---- child
BaseSuite == Suite(256, "sha1", "sha256")
BaseKeys == KeysRandom(BaseSuite, 1, 3)
ChildNew(o) == Step("child_new", PropId, FALSE, [name |-> Nm(o), encr |-> EncrOf(o), integ |-> IntegOf(o), via |-> ViaOf(o)], [panic |-> FALSE, err |-> FALSE])
ChildUse(o, q) ==      \* q: position in the history (a fresh nonce and fresh names for every use)
  LET st == ChildStep(PropId, "A", "U" \o ToString(q) \o "_", BaseSuite.prf, BaseKeys.sk_d, FillT("seeded", 24 + q, Seed + q), EncrOf(o), IntegOf(o)) IN
  [st EXCEPT !.args = @ @@ [obj |-> Nm(o)]]
\* ---- ike
Nonce(o) == FillT("seeded", 32 + o, Seed + 40 + o)
PeerX(o) == FillT("seeded", 20, Seed + 50 + o)        \* the peer's exponent
IkeNew(o, pos) ==
  LET px == "I" \o ToString(o) \o "_" su == SuiteOf(o) g == GrpOf(o)
      st == NewIkeSaStepP(px, PropId, Nm(o), su, g, PubT(g, PeerX(o)), Nonce(o), D(8, o), D(8, 10 + o), [mode |-> "det", seed |-> Seed + o]) IN
  st @@ [defs |-> IkeKeyDefsP(px, su, Nonce(o), SharedT(g, PeerX(o), RefT(pos, "pub", DhLen(g))), Lit(D(8, o)), Lit(D(8, 10 + o)))]
IkeUse(o) ==
  LET px == "I" \o ToString(o) \o "_" su == SuiteOf(o) x == IkeKeyExpectP(px, su) IN
  Step("sa_probe", PropId, FALSE, [sa |-> Nm(o)] @@ ProbeArgsP(px, su),
       [panic |-> FALSE, p_prf_d |-> x.p_prf_d, p_integ_i |-> x.p_integ_i, p_integ_r |-> x.p_integ_r, p_prf_i |-> x.p_prf_i, p_prf_r |-> x.p_prf_r,
        p_ct_i |-> x.p_ct_i, p_ct_r |-> x.p_ct_r])

StepOf(q) == LET op == ops[q][1] o == ops[q][2] IN
             IF Kind = "child" THEN (IF op = "new" THEN ChildNew(o) ELSE ChildUse(o, q))
             ELSE (IF op = "new" THEN IkeNew(o, q) ELSE IkeUse(o))
\* position of the step that created object o, counted in the emitted vector (the child vectors start with the SaNew of the IKE SA)
Offset == IF Kind = "child" THEN 1 ELSE 0
NewPos(o) == Offset + (CHOOSE q \in 1..Len(ops) : ops[q] = << "new", o >>)
Vec == VectorD("multisa_" \o Kind, << >>,
         (IF Kind = "child" THEN << SaNew("A", BaseSuite, BaseKeys) >> ELSE << >>) \o [q \in 1..Len(ops) |-> StepOf(q)])

Init == M!Init
Next == M!Next
\* a behaviour is printed when it cannot go on (length bound) and some object is used after ANOTHER one was created behind it
UsedAfterOther == \E q \in 1..Len(ops) : ops[q][1] = "use" /\ \E r \in 1..(q - 1) : ops[r][1] = "new" /\ ops[r][2] # ops[q][2] /\ r > NewPos(ops[q][2]) - Offset
\* (a Child SA object is keyed ONCE: GenerateKeyForChildSA on an object that already holds keys is outside what C08 quantifies over)
Full == IF Kind = "child" THEN Len(ops) = 2 * NObj ELSE Len(ops) = MaxOps
Emit == (Full /\ UsedAfterOther) => PrintT(ToJson(Vec))
Sound == M!OwnParams
=============================================================================
