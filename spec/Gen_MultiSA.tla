----------------------------- MODULE Gen_MultiSA -----------------------------
(* Every behaviour of MultiSA (objects created from different proposals, used in every order) as a vector on real objects:            *)
(*   kind "child": Child SA objects from ESP proposals of different key sizes / integrity algorithms (NewChildSAKeyByProposal, over   *)
(*                 the wire), keyed later on one IKE SA: the keys are the RFC 7296 2.17 terms for the object's OWN sizes (C08);       *)
(*   kind "ike":   IKE SA objects from IKE proposals of different suites and groups (NewIKESAKey keys them at once), probed later:    *)
(*                 the seven keys and seven ready-to-use objects are those of the object's OWN suite (C07).                           *)
EXTENDS KeyLife, Pools
CONSTANTS NObj, MaxOps, Kind, PropId
VARIABLES created, shared, seen, ops
M == INSTANCE MultiSA WITH TypesPerObject <- TRUE

EncrOf(o) == << 128, 256, 192 >>[((o - 1) % 3) + 1]
IntegOf(o) == << "md5", "sha256", "sha1" >>[((o - 1) % 3) + 1]
PrfOfObj(o) == << "sha1", "md5", "sha256" >>[((o - 1) % 3) + 1]
GrpOf(o) == IF o % 2 = 0 THEN 14 ELSE 2
SuiteOf(o) == Suite(EncrOf(o), IntegOf(o), PrfOfObj(o))
Nm(o) == "O" \o ToString(o)
ViaOf(o) == << "proposal", "proposal-dh14", "proposal-dh2" >>[((o - 1) % 3) + 1]

\* ---- child
BaseSuite == Suite(256, "sha1", "sha256")
BaseKeys == KeysRandom(BaseSuite, 1, 3)
ChildNew(o) == Step("child_new", PropId, FALSE, [name |-> Nm(o), encr |-> EncrOf(o), integ |-> IntegOf(o), via |-> ViaOf(o)], [panic |-> FALSE, err |-> FALSE])
ChildUse(o, q) ==      \* q: position in the history (a fresh nonce and fresh names for every use)
  LET st == ChildStep(PropId, "A", "U" \o ToString(q) \o "_", BaseSuite.prf, BaseKeys.sk_d, FillT("seeded", 24 + q, Seed + q), EncrOf(o), IntegOf(o)) IN
  [st EXCEPT !.args = @ @@ [obj |-> Nm(o)]]
\* ---- ike
Nonce(o) == FillT("seeded", 32 + o, Seed + 40 + o)
PeerX(o) == FillT("seeded", 20, Seed + 50 + o)        \* the peer's exponent
IkeNew(o) ==
  LET px == "I" \o ToString(o) \o "_" su == SuiteOf(o) g == GrpOf(o)
      st == NewIkeSaStepP(px, PropId, Nm(o), su, g, PubT(g, PeerX(o)), Nonce(o), D(8, o), D(8, 10 + o), [mode |-> "det", seed |-> Seed + o]) IN
  st @@ [defs |-> IkeKeyDefsP(px, su, Nonce(o), SharedT(g, PeerX(o), RefT(0, "pub", DhLen(g))), Lit(D(8, o)), Lit(D(8, 10 + o)))]
