----------------------------- MODULE Trace_Codec -----------------------------
(***************************************************************************)
(* T direction for the codec family: TLC reads a trace of calls recorded   *)
(* from the real code (replayer log, random drivers, the repository's own  *)
(* tests under the verif hooks) and judges every event with the same       *)
(* Expect... operators the generation side uses.  Non-blocking: every      *)
(* event is consumed, offending events are collected in `bad` and written  *)
(* out at the end (DESIGN.md 4.3).                                         *)
(***************************************************************************)
EXTENDS CodecLife, EapLife, IOUtils

Trace == ndJsonDeserialize(IOEnv.VTRACE)

VARIABLES l, bad

JudgeEncode(i, e) ==
  LET o == e.obs m == e.args.msg IN
  IF ~Encodable(m) THEN << >>
  ELSE IF Crashed(o) THEN B(i, << e.prop >>, "encode crashed on an encodable message")
  ELSE IF Has(o, "builderr") THEN B(i, << "C14" >>, "attribute setter refused a value of the encodable domain")
  ELSE IF o.err THEN B(i, << e.prop >>, "encode refused an encodable message")
  ELSE IF ~WellFormedFor(o.wire, m) THEN B(i, << "C05" >>, "encoded octets are not the well-formed RFC 7296 datagram of the message")
  ELSE << >>

\* generic comparison of a decoder observation with ExpectDecode / ExpectDecodeChain
JudgeDec(i, e, x, field) ==
  LET o == e.obs IN
  IF Crashed(o) THEN B(i, << "C04" >>, "decoder crashed or hung")
  ELSE IF Has(o, "capdiff") /\ o.capdiff THEN B(i, << "C04" >>, "outcome depends on octets beyond the slice length")
  ELSE IF ~Has(x, "err") THEN << >>
  ELSE IF x.err /\ ~o.err THEN B(i, << "C13" >>, "critical unsupported payload accepted")
  ELSE IF ~x.err /\ o.err THEN B(i, << e.prop >>, "well-formed datagram of the encodable domain refused")
  ELSE IF ~x.err /\ o[field] # x[field] THEN B(i, << e.prop >>, "decoded value differs from the reference parse")
  ELSE << >>

JudgeReencode(i, e) ==
  LET o == e.obs IN
  IF Crashed(o) THEN B(i, << "C04" >>, "decoder crashed or hung")
  ELSE IF o.c12 \notin {"ok", "na"} THEN B(i, << "C12" >>, "decode/encode is not stable: " \o o.c12)
  ELSE IF o.c12 = "ok" /\ Canonical(e.args.wire) /\ ~o.same THEN B(i, << "C12" >>, "canonical datagram not reproduced byte for byte")
  ELSE IF o.c12 = "na" /\ Canonical(e.args.wire) THEN B(i, << "C12" >>, "canonical datagram not accepted or not re-encodable")
  ELSE << >>

\* ---- events of single payloads and payload chains (trace source S3: the repository's own tests, instrumented)
JudgeEncodeChain(i, e) ==
  LET o == e.obs ps == e.args.payloads IN
  IF ~ChainEncodable(ps) THEN << >>
  ELSE IF Crashed(o) THEN B(i, << e.prop >>, "chain encode crashed on encodable payloads")
  ELSE IF o.err THEN B(i, << e.prop >>, "chain encode refused encodable payloads")
  ELSE IF o.wire # EncChain(NormChain(ps)) THEN B(i, << "C05" >>, "encoded payload chain differs from the reference encoding")
  ELSE << >>
JudgePayloadMarshal(i, e) ==
  LET o == e.obs p == e.args.payload IN
  IF ~Has(p, "k") \/ p.k \notin PKindNames THEN << >>
  ELSE IF ~PayloadEncodable(p) THEN << >>
  ELSE IF o.err THEN B(i, << e.prop >>, "payload Marshal refused an encodable payload")
  ELSE IF o.body # EncBodyW(PayloadPlain(NormPayload(p))) THEN B(i, << "C05" >>, "payload body differs from the reference encoding")
  ELSE << >>
JudgePayloadUnmarshal(i, e) ==
  LET o == e.obs k == e.args.kind IN
  IF k \notin PKindNames THEN << >>
  ELSE LET r == ParseBodyW(k, 0, 0, e.args.wire) IN
       IF ~r.ok THEN << >>
       ELSE IF ~PayloadRepresentable(r.v) THEN << >>
       ELSE LET d == NormPayload(PayloadStrip(r.v)) IN
            IF ~PayloadEncodable(d) THEN << >>
            ELSE IF o.err THEN B(i, << e.prop >>, "payload Unmarshal refused a well-formed body of the encodable domain")
            ELSE IF o.payload # d THEN B(i, << e.prop >>, "unmarshalled payload differs from the reference parse")
            ELSE << >>

Judge(i, e) ==
  CASE e.ev = "encode" -> JudgeEncode(i, e)
    [] e.ev = "decode" -> JudgeDec(i, e, ExpectDecode(e.args.wire), "msg")
    [] e.ev = "decode_chain" -> JudgeDec(i, e, ExpectDecodeChain(e.args.first, e.args.wire), "payloads")
    [] e.ev = "reencode" -> JudgeReencode(i, e)
    [] e.ev = "encode_chain" -> JudgeEncodeChain(i, e)
    [] e.ev = "payload_marshal" -> JudgePayloadMarshal(i, e)
    [] e.ev = "payload_unmarshal" -> JudgePayloadUnmarshal(i, e)
    [] e.ev = "eap_encode" -> JudgeEapEncode(i, e)
    [] e.ev = "eap_decode" -> JudgeEapDecode(i, e)
    [] e.ev = "eap_reencode" -> JudgeEapReencode(i, e)
    [] e.ev \in {"decode_body", "parse_header"} ->
         IF Crashed(e.obs) THEN B(i, << "C04" >>, "decoder crashed or hung")
         ELSE IF Has(e.obs, "capdiff") /\ e.obs.capdiff THEN B(i, << "C04" >>, "outcome depends on octets beyond the slice length")
         ELSE << >>
    [] OTHER -> << >>

Init == l = 1 /\ bad = << >>
Next == l <= Len(Trace) /\ l' = l + 1 /\ bad' = bad \o Judge(l, Trace[l])
Done == l = Len(Trace) + 1 => JsonSerialize(IOEnv.VOUT, [n |-> l - 1, bad |-> bad])
=============================================================================
