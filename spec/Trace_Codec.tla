----------------------------- MODULE Trace_Codec -----------------------------
(***************************************************************************)
(* T direction for the codec family: TLC reads a trace of calls recorded   *)
(* from the real code (replayer log, random drivers, the repository's own  *)
(* tests under the verif hooks) and judges every event with the same       *)
(* Expect... operators the generation side uses.  Non-blocking: every      *)
(* event is consumed, offending events are collected in `bad` and written  *)
(* out at the end (DESIGN.md 4.3).                                         *)
(***************************************************************************)
EXTENDS CodecLife, EapLife, IOUtils

Trace == ndJsonDeserialize(IOEnv.VTRACE)

VARIABLES l, bad

JudgeEncode(i, e) ==
  LET o == e.obs m == e.args.msg IN
  IF ~Encodable(m) THEN << >>
  ELSE IF Crashed(o) THEN B(i, << e.prop >>, "encode crashed on an encodable message")
  ELSE IF Has(o, "builderr") THEN B(i, << "C14" >>, "attribute setter refused a value of the encodable domain")
  ELSE IF o.err THEN B(i, << e.prop >>, "encode refused an encodable message")
  ELSE IF ~WellFormedFor(o.wire, m) THEN B(i, << "C05" >>, "encoded octets are not the well-formed RFC 7296 datagram of the message")
  ELSE << >>

\* generic comparison of a decoder observation with ExpectDecode / ExpectDecodeChain
JudgeDec(i, e, x, field) ==
  LET o == e.obs IN
  IF Crashed(o) THEN B(i, << "C04" >>, "decoder crashed or hung")
  ELSE IF Has(o, "capdiff") /\ o.capdiff THEN B(i, << "C04" >>, "outcome depends on octets beyond the slice length")
  ELSE IF ~Has(x, "err") THEN << >>
  ELSE IF x.err /\ ~o.err THEN B(i, << "C13" >>, "critical unsupported payload accepted")
  ELSE IF ~x.err /\ o.err THEN B(i, << e.prop >>, "well-formed datagram of the encodable domain refused")
  ELSE IF ~x.err /\ o[field] # x[field] THEN B(i, << e.prop >>, "decoded value differs from the reference parse")
  ELSE << >>

JudgeReencode(i, e) ==
  LET o == e.obs IN
  IF Crashed(o) THEN B(i, << "C04" >>, "decoder crashed or hung")
  ELSE IF o.c12 \notin {"ok", "na"} THEN B(i, << "C12" >>, "decode/encode is not stable: " \o o.c12)
  ELSE IF o.c12 = "ok" /\ Canonical(e.args.wire) /\ ~o.same THEN B(i, << "C12" >>, "canonical datagram not reproduced byte for byte")
  ELSE IF o.c12 = "na" /\ Canonical(e.args.wire) THEN B(i, << "C12" >>, "canonical datagram not accepted or not re-encodable")
  ELSE << >>

Judge(i, e) ==
  CASE e.ev = "encode" -> JudgeEncode(i, e)
    [] e.ev = "decode" -> JudgeDec(i, e, ExpectDecode(e.args.wire), "msg")
    [] e.ev = "decode_chain" -> JudgeDec(i, e, ExpectDecodeChain(e.args.first, e.args.wire), "payloads")
    [] e.ev = "reencode" -> JudgeReencode(i, e)
    [] e.ev = "eap_encode" -> JudgeEapEncode(i, e)
    [] e.ev = "eap_decode" -> JudgeEapDecode(i, e)
    [] e.ev = "eap_reencode" -> JudgeEapReencode(i, e)
    [] e.ev \in {"decode_body", "parse_header"} ->
         IF Crashed(e.obs) THEN B(i, << "C04" >>, "decoder crashed or hung")
         ELSE IF Has(e.obs, "capdiff") /\ e.obs.capdiff THEN B(i, << "C04" >>, "outcome depends on octets beyond the slice length")
         ELSE << >>
    [] OTHER -> << >>

Init == l = 1 /\ bad = << >>
Next == l <= Len(Trace) /\ l' = l + 1 /\ bad' = bad \o Judge(l, Trace[l])
Done == l = Len(Trace) + 1 => JsonSerialize(IOEnv.VOUT, [n |-> l - 1, bad |-> bad])
=============================================================================
