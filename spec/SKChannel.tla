------------------------------ MODULE SKChannel ------------------------------
(***************************************************************************)
(* The protected channel between holders of IKE SA key objects, with a     *)
(* Dolev-Yao adversary on the wire (C01 C02 C17, and the setting of C06).  *)
(*                                                                         *)
(* Objects "A" and "B" hold keyset 1, "X" holds keyset 2.  Each object has *)
(* two stateful MAC objects (one per direction) and a stateful PRF object  *)
(* for Child SA derivation: what has been written into them since their    *)
(* last Reset is part of the state (Go's hmac keeps its input until Reset; *)
(* Sum does not reset).  The mechanisms the code relies on are knobs:      *)
(*   ResetBeforeMac   Reset before every MAC computation                   *)
(*   ResetPerPrfBlock Reset before every prf+ block                        *)
(*   MacFirst         checksum verified before the cipher sees anything    *)
(*   PeerKeys         a receiver in role r uses the keys of direction ~r   *)
(* With all knobs TRUE the invariants hold; with any one FALSE TLC finds   *)
(* a counterexample (sanity configurations).                               *)
(*                                                                         *)
(* A datagram on the net is described by provenance: which sent datagram   *)
(* its header, its Encrypted-payload body (IV, ciphertext) and its         *)
(* checksum come from ("mod" = altered octets, known to nobody), and       *)
(* whether octet 17 still announces an Encrypted payload.  Without the     *)
(* key the adversary can only reuse observed checksums (HMAC is treated    *)
(* as collision free).                                                     *)
(***************************************************************************)
EXTENDS Naturals, Sequences, FiniteSets, TLC

CONSTANTS Msgs, MaxOps, ResetBeforeMac, ResetPerPrfBlock, MacFirst, PeerKeys

Objs == {"A", "B", "X"}
KeysetOf(o) == IF o = "X" THEN 2 ELSE 1
Roles == {TRUE, FALSE}                 \* TRUE = initiator
Peer(r) == ~r
Nonces == {1, 2}

VARIABLES
  sent,      \* sequence of sent datagrams [m, dir, ks, good]: good = the sender's MAC object was clean
  net,       \* set of datagrams [h, b, i, sk]: indices into sent or 0 for "mod"; sk = octet 17 still says 46
  macbuf,    \* macbuf[o][dir]: sequence of data items written into the MAC object since its last Reset
  prfbuf,    \* prfbuf[o]: items written into Prf_d since its last Reset
  outcome,   \* verdict of the last operation on the long-lived object
  fresh,     \* verdict of the same operation on a fresh object with the same keys
  decBeforeMac,
  cipherOnPlain,
  ops        \* history, printed by the generation configuration
vars == << sent, net, macbuf, prfbuf, outcome, fresh, decBeforeMac, cipherOnPlain, ops >>

\* verdicts are uniform records (comparing a string with a tuple is a TLC evaluation error, not FALSE)
None == [v |-> "none", m |-> "-", k |-> << >>]
Acc(m) == [v |-> "accept", m |-> m, k |-> << >>]
Rej == [v |-> "reject", m |-> "-", k |-> << >>]
Plain == [v |-> "plain", m |-> "-", k |-> << >>]
Keys(k) == [v |-> "keys", m |-> "-", k |-> k]

Init == /\ sent = << >> /\ net = {}
        /\ macbuf = [o \in Objs |-> [d \in Roles |-> << >>]]
        /\ prfbuf = [o \in Objs |-> << >>]
        /\ outcome = None /\ fresh = None /\ decBeforeMac = FALSE /\ cipherOnPlain = FALSE /\ ops = << >>

Step(op) == ops' = Append(ops, op) /\ Len(ops) < MaxOps

\* what the MAC object of o in direction dir computes over data item x: a clean object computes MAC(x);
\* an object that still holds earlier input computes the MAC of the concatenation, which matches nothing
MacInput(o, dir, x) == (IF ResetBeforeMac THEN << >> ELSE macbuf[o][dir]) \o << x >>
Touch(o, dir, x) == macbuf' = [macbuf EXCEPT ![o][dir] = MacInput(o, dir, x)]

\* ---- sender
Protect(o, r, m) ==
  /\ Step([op |-> "protect", o |-> o, r |-> r, m |-> m, d |-> Len(sent) + 1])
  /\ LET good == MacInput(o, r, "x") = << "x" >> IN
     /\ sent' = Append(sent, [m |-> m, dir |-> r, ks |-> KeysetOf(o), good |-> good])
     /\ net' = net \cup { [h |-> Len(sent) + 1, b |-> Len(sent) + 1, i |-> IF good THEN Len(sent) + 1 ELSE 0, sk |-> TRUE] }
     /\ outcome' = IF good THEN Acc(m) ELSE Rej      \* "would a fresh peer accept it"
     /\ fresh' = Acc(m)
  /\ Touch(o, r, "x")
  /\ UNCHANGED << prfbuf, decBeforeMac, cipherOnPlain >>

\* ---- adversary: every edit yields a datagram whose altered segment is "mod"
\* the cleartext header is determined by the message (its header fields and total length), so the header of another
\* protection of the SAME message is the same octets: provenance of the header is compared by content
Genuine(d) == d.sk /\ d.h # 0 /\ d.b # 0 /\ d.b = d.i /\ sent[d.h].m = sent[d.b].m
AdvEdit(kind) ==
  \E d \in net :
    /\ Genuine(d) /\ d.h = d.b
    /\ Step([op |-> "adv", kind |-> kind, d |-> d.h, d2 |-> 0])
    /\ net' = net \cup { CASE kind = "fliphdr"  -> [d EXCEPT !.h = 0]
                           [] kind = "flipbody" -> [d EXCEPT !.b = 0]
                           [] kind = "flipicv"  -> [d EXCEPT !.i = 0]
                           [] kind = "truncate" -> [d EXCEPT !.b = 0, !.i = 0]
                           [] kind = "extend"   -> [d EXCEPT !.i = 0]
                           [] kind = "retype"   -> [d EXCEPT !.h = 0, !.sk = FALSE] }
    /\ UNCHANGED << sent, macbuf, prfbuf, outcome, fresh, decBeforeMac, cipherOnPlain >>
\* octets the adversary made up: nothing in them comes from a sent datagram, but they present an Encrypted payload
AdvGarbage ==
  /\ [h |-> 0, b |-> 0, i |-> 0, sk |-> TRUE] \notin net
  /\ Step([op |-> "adv", kind |-> "garbage", d |-> 0, d2 |-> 0])
  /\ net' = net \cup { [h |-> 0, b |-> 0, i |-> 0, sk |-> TRUE] }
  /\ UNCHANGED << sent, macbuf, prfbuf, outcome, fresh, decBeforeMac, cipherOnPlain >>
AdvSplice ==
  \E d1, d2 \in net :
    /\ Genuine(d1) /\ Genuine(d2) /\ d1 # d2 /\ d1.h = d1.b /\ d2.h = d2.b
    /\ Step([op |-> "adv", kind |-> "splice", d |-> d1.h, d2 |-> d2.h])
    /\ net' = net \cup { [h |-> d1.h, b |-> d2.b, i |-> d2.i, sk |-> TRUE] }
    /\ UNCHANGED << sent, macbuf, prfbuf, outcome, fresh, decBeforeMac, cipherOnPlain >>

\* ---- receiver
MacValidFresh(o, dir, d) == Genuine(d) /\ sent[d.b].ks = KeysetOf(o) /\ sent[d.b].dir = dir
MacValidLong(o, dir, d)  == MacValidFresh(o, dir, d) /\ MacInput(o, dir, "x") = << "x" >>
Verdict(valid, d) == IF valid THEN Acc(sent[d.b].m) ELSE Rej
Unprotect(o, r, d) ==
  /\ Step([op |-> "unprotect", o |-> o, r |-> r, h |-> d.h, b |-> d.b, i |-> d.i, sk |-> d.sk,
           exp |-> IF ~d.sk THEN Plain ELSE Verdict(MacValidFresh(o, IF PeerKeys THEN Peer(r) ELSE r, d), d)])
  /\ IF ~d.sk
       THEN /\ outcome' = Plain /\ fresh' = Plain          \* handled as an unprotected datagram: no key is applied
            /\ UNCHANGED << macbuf, decBeforeMac, cipherOnPlain >>
       ELSE LET dir == IF PeerKeys THEN Peer(r) ELSE r IN
            /\ outcome' = Verdict(MacValidLong(o, dir, d), d)
            /\ fresh' = Verdict(MacValidFresh(o, dir, d), d)
            /\ decBeforeMac' = (decBeforeMac \/ (~MacFirst /\ ~MacValidLong(o, dir, d)))
            /\ Touch(o, dir, "x")
            /\ UNCHANGED cipherOnPlain
  /\ UNCHANGED << sent, net, prfbuf >>

\* ---- Child SA derivation from the shared stateful PRF object: prf+ of two blocks
PrfBlocks(o, n) ==      \* what each of the two blocks is computed over
  LET b1 == (IF ResetPerPrfBlock THEN << >> ELSE prfbuf[o]) \o << n >>
      b2 == (IF ResetPerPrfBlock THEN << >> ELSE b1) \o << n, "t1" >> IN << b1, b2 >>
DeriveChild(o, n) ==
  /\ Step([op |-> "derive", o |-> o, n |-> n])
  /\ LET bl == PrfBlocks(o, n) IN
     /\ outcome' = Keys(bl)
     /\ fresh' = Keys(<< << n >>, << n, "t1" >> >>)
     /\ prfbuf' = [prfbuf EXCEPT ![o] = bl[2]]
  /\ UNCHANGED << sent, net, macbuf, decBeforeMac, cipherOnPlain >>

Next ==
  \/ \E o \in Objs, r \in Roles, m \in Msgs : Protect(o, r, m)
  \/ \E k \in {"fliphdr", "flipbody", "flipicv", "truncate", "extend", "retype"} : AdvEdit(k)
  \/ AdvSplice \/ AdvGarbage
  \/ \E o \in Objs, r \in Roles, d \in net : Unprotect(o, r, d)
  \/ \E o \in Objs, n \in Nonces : DeriveChild(o, n)

\* ---- properties
AsFresh == outcome = fresh                                                                      \* C17
AcceptOnlySent ==                                                                               \* C02
  \A o \in Objs, r \in Roles, d \in net :
    (d.sk /\ MacValidFresh(o, IF PeerKeys THEN Peer(r) ELSE r, d)) =>
        Genuine(d) /\ sent[d.b].ks = KeysetOf(o) /\ sent[d.b].dir = Peer(r)
RoundTrip ==                                                                                    \* C01
  \A o \in Objs, d \in net :
    (Genuine(d) /\ sent[d.b].good /\ sent[d.b].ks = KeysetOf(o)) =>
        MacValidFresh(o, IF PeerKeys THEN Peer(Peer(sent[d.b].dir)) ELSE Peer(sent[d.b].dir), d)
MacBeforeDecrypt == ~decBeforeMac                                                               \* C02
RetypeIsPlain == ~cipherOnPlain                                                                 \* C02
NoReflection ==                                                                                 \* C02: same role that produced it
  \A o \in Objs, d \in net : Genuine(d) => ~MacValidFresh(o, IF PeerKeys THEN Peer(sent[d.b].dir) ELSE sent[d.b].dir, d)
                                           \/ ~PeerKeys
View == << sent, net, macbuf, prfbuf, outcome, fresh, decBeforeMac, cipherOnPlain, Len(ops) >>
=============================================================================
