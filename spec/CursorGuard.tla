---------------------------- MODULE CursorGuard ----------------------------
(***************************************************************************)
(* Unbounded version of the guard argument behind C04 (DESIGN.md section   *)
(* 7): a decoder cursor inside an extent of `len` visible octets that      *)
(* checks `need <= rem` in EXACT arithmetic before every read never reads  *)
(* beyond the visible octets, for all lengths and all declared sizes.      *)
(* With Exact = FALSE the sum `fixed + size` is computed modulo            *)
(* Wrap before the comparison       (the uint8 / uint16 slips D1, D3,     *)
(* D5): the invariant then fails (Apalache produces the counterexample).   *)
(* Checked with Apalache as an inductive invariant:                        *)
(*   apalache-mc check --init=IndInit --inv=IndInv --length=1              *)
(***************************************************************************)
EXTENDS Integers

CONSTANTS
  \* @type: Bool;
  Exact,        \* TRUE: the guard is evaluated in exact arithmetic
  \* @type: Int;
  Wrap          \* the modulus of the guard's arithmetic when not exact (256 or 65536)

VARIABLES
  \* @type: Int;
  len,
  \* @type: Int;
  pos,
  \* @type: Int;
  maxRead       \* highest octet index (exclusive) ever read

Guard(fixed, size) == IF Exact THEN fixed + size ELSE (fixed + size) % Wrap

Init == len \in Nat /\ pos = 0 /\ maxRead = 0
\* read a structure with a `fixed` part and a declared `size` (both arbitrary naturals) if the guard admits it
Read == \E fixed \in 0..12, size \in 0..70000 :
          /\ Guard(fixed, size) <= len - pos
          /\ pos' = pos + fixed + size
          /\ maxRead' = IF pos + fixed + size > maxRead THEN pos + fixed + size ELSE maxRead
          /\ UNCHANGED len
Next == Read

NoOverRead == maxRead <= len
IndInv == len >= 0 /\ pos >= 0 /\ pos <= len /\ maxRead >= 0 /\ maxRead <= len /\ pos <= maxRead
IndInit == len \in Nat /\ pos \in Nat /\ maxRead \in Nat /\ pos <= maxRead /\ maxRead <= len
=============================================================================
