------------------------------- MODULE Trace_SK -------------------------------
(***************************************************************************)
(* T direction for the protected channel: TLC judges recorded sa_new /     *)
(* protect / unprotect calls of the real code (C01 C02 C06).  The state    *)
(* of the trace specification is the set of SA key objects created so far  *)
(* in the current behaviour (name -> suite and key octets): the keys the   *)
(* specification applies come from that state, not from the event being    *)
(* judged.  The two primitives TLC cannot compute (HMAC, AES-CBC) arrive   *)
(* as echo oracles: the harness states over which span / with which key    *)
(* it evaluated them and TLC first checks that these are the span and the  *)
(* key the specification means ("INFRA" otherwise, never a verdict).       *)
(***************************************************************************)
EXTENDS SKLife, IOUtils

Trace == ndJsonDeserialize(IOEnv.VTRACE)
VARIABLES l, bad, sas, cur

SuiteOfEv(s) == [encr |-> s.encr, integ |-> s.integ]
KeyOf(sa, nm) == sas[sa].keys[nm]

\* the oracle of an event is the one the specification asks for: key = the key named nm of object sa, span as given
OracleOk(e, sa, senderInitiator, n) ==
  LET o == e.obs.oracle il == IcvLen(sas[sa].suite.integ) IN
  /\ o.ska = KeyOf(sa, IntegKeyName(senderInitiator))
  /\ o.ske = KeyOf(sa, EncKeyName(senderInitiator))
  /\ o.icvlen = il
  /\ (Has(o, "mac") => o.mac_span = << 0, n - il >>)
  /\ (Has(o, "pt") => o.iv_span = << 32, 48 >> /\ o.ct_span = << 48, n - il >>)

JudgeProtect(i, e) ==
  LET o == e.obs a == e.args IN
  IF Crashed(o) THEN B(i, << e.prop >>, "protect crashed")
  ELSE IF ~Encodable(a.msg) THEN << >>
  ELSE IF a.sa = "none" THEN
         (IF o.err THEN B(i, << "C01" >>, "plain fallback refused an encodable message")
          ELSE IF ~WellFormedFor(o.wire, a.msg) THEN B(i, << "C01" >>, "without keys EncodeEncrypt is not plain encode") ELSE << >>)
  ELSE IF a.sa \notin DOMAIN sas THEN B(i, << "INFRA" >>, "protect on an unknown SA object")
  ELSE LET su == sas[a.sa].suite IN
       IF ~FitsProtected(a.msg, su) THEN << >>
       \* (the random source was made to fail during this call: an error and no datagram is the right outcome, C10 / C17)
       ELSE IF Has(o, "failseen") /\ o.failseen THEN (IF o.err THEN << >> ELSE B(i, << e.prop >>, "the random source failed but protect returned a datagram"))
       ELSE IF o.err THEN B(i, << "C01" >>, "protect refused an encodable message")
       ELSE IF ~Has(o, "oracle") \/ ~Has(o.oracle, "mac") \/ ~Has(o.oracle, "pt") THEN B(i, << "C06" >>, "protected datagram too short or ciphertext not a block multiple")
       ELSE IF ~OracleOk(e, a.sa, a.role, Len(o.wire)) THEN B(i, << "INFRA" >>, "oracle mismatch on protect")
       ELSE LET why == ProtectedIs(o.wire, a.msg, su, o.oracle.mac, o.oracle.pt) IN
            (IF why # "ok" THEN B(i, << "C06" >>, why) ELSE << >>)
            \o (IF ~o.hdrsame THEN B(i, << "C20" >>, "protect altered header fields of the message") ELSE << >>)
            \o (IF o.orig # NormChain(a.msg.payloads) THEN B(i, << "C20" >>, "protect altered the caller's payload objects") ELSE << >>)
            \o (IF Has(o, "held") /\ o.held # NormChain(a.msg.payloads) THEN B(i, << "C20" >>, "protect wrote into the storage of the caller's payload container") ELSE << >>)

JudgeUnprotect(i, e) ==
  LET o == e.obs a == e.args w == a.wire n == Len(w) IN
  IF Crashed(o) THEN B(i, << "C04", e.prop >>, "unprotect crashed or hung")
  ELSE IF Has(o, "capdiff") /\ o.capdiff THEN B(i, << "C04" >>, "unprotect outcome depends on octets beyond the slice length")
  ELSE IF a.sa = "none" THEN
         LET x == ExpectDecode(w) IN
         IF ~Has(x, "err") THEN << >>
         ELSE IF x.err THEN (IF o.err THEN << >> ELSE B(i, << "C13" >>, "critical unsupported payload accepted"))
         ELSE IF Len(x.msg.payloads) > 0 /\ x.msg.payloads[1].k = "SK" THEN (IF o.err THEN << >> ELSE B(i, << "C01" >>, "Encrypted payload accepted without keys"))
         ELSE IF o.err THEN B(i, << "C01" >>, "without keys DecodeDecrypt is not plain decode (refused)")
         ELSE IF o.msg # x.msg THEN B(i, << "C01" >>, "without keys DecodeDecrypt is not plain decode (value differs)") ELSE << >>
  ELSE IF a.sa \notin DOMAIN sas THEN B(i, << "INFRA" >>, "unprotect on an unknown SA object")
  ELSE IF n >= 28 /\ w[17] # 46 THEN
         \* (unsupported non-critical payloads in front of the Encrypted payload are skipped, C13: such a datagram does present one;
         \*  it is judged in the M direction only, the echo oracle's spans assume the Encrypted payload at octet 28)
         (IF (LET r == ParseW(w) IN r.ok /\ (LET sup == SelectSeq(r.v.payloads, LAMBDA q : q.k # "UNK") IN Len(sup) > 0 /\ sup[1].k = "SK")) THEN << >>
          \* (what matters is that no ciphertext reaches the cipher; walking the chain past a type the header does not let one
          \*  expect and computing a checksum that then fails is a refusal like any other)
          ELSE IF o.decrypts # 0 THEN B(i, << "C02" >>, "a cipher was applied to a datagram that presents no Encrypted payload") ELSE << >>)
  ELSE LET su == sas[a.sa].suite il == IcvLen(su.integ)
           hasMac == Has(o, "oracle") /\ Has(o.oracle, "mac") IN
       IF hasMac /\ ~OracleOk(e, a.sa, ~a.role, n) THEN B(i, << "INFRA" >>, "oracle mismatch on unprotect")
       ELSE LET valid == hasMac /\ Take(o.oracle.mac, il) = From(w, n - il + 1) IN
       IF ~valid THEN
            (IF ~o.err THEN B(i, << "C02" >>, "datagram without a valid checksum accepted")
             ELSE IF o.decrypts # 0 THEN B(i, << "C02" >>, "ciphertext handed to the cipher before the checksum was verified") ELSE << >>)
       ELSE LET s == SplitSK(w, il) IN
            IF ~s.ok \/ ~Has(o.oracle, "pt") THEN << >>
            ELSE LET pt == o.oracle.pt padLen == pt[Len(pt)] IN
                 IF padLen + 1 > Len(pt) THEN (IF o.err THEN << >> ELSE B(i, << "C10" >>, "impossible pad length accepted"))
                 ELSE LET inner == Take(pt, Len(pt) - padLen - 1)
                          x == ExpectDecodeChain(s.v.sknext, inner) IN
                      IF ~Has(x, "err") THEN << >>
                      ELSE IF x.err THEN (IF o.err THEN << >> ELSE B(i, << "C13" >>, "critical unsupported payload accepted inside SK"))
                      ELSE IF o.err THEN B(i, << e.prop >>, "authentic protected message refused")
                      ELSE IF o.msg # (s.v.hdr @@ [payloads |-> x.payloads]) THEN B(i, << e.prop >>, "unprotected message differs from header fields + decrypted inner payloads")
                      ELSE << >>

Judge(i, e) ==
  CASE e.ev = "protect" -> JudgeProtect(i, e)
    [] e.ev = "unprotect" -> JudgeUnprotect(i, e)
    [] OTHER -> << >>

Init == l = 1 /\ bad = << >> /\ sas = << >> /\ cur = ""
Next ==
  /\ l <= Len(Trace) /\ l' = l + 1
  /\ LET e == Trace[l]
         base == IF e.vid = cur THEN sas ELSE << >> IN      \* a new behaviour starts with no SA objects
     /\ cur' = e.vid
     /\ sas' = IF e.ev = "sa_new" THEN base @@ (e.args.name :> [suite |-> e.args.suite, keys |-> e.args.keys]) ELSE base
     /\ bad' = bad \o (IF e.vid = cur \/ e.ev = "sa_new" \/ e.args.sa = "none" THEN Judge(l, e)
                        ELSE B(l, << "INFRA" >>, "keyed call as first event of a behaviour"))
Done == l = Len(Trace) + 1 => JsonSerialize(IOEnv.VOUT, [n |-> l - 1, bad |-> bad])
=============================================================================
