------------------------------ MODULE CodecLife ------------------------------
(***************************************************************************)
(* Life of a message through the plain codec: a message value is adopted   *)
(* or built, encoded, possibly edited on the wire (unsupported payload     *)
(* inserted, sender liberties applied, mutated), decoded, re-encoded.      *)
(*                                                                         *)
(* The expectations of every API call are defined ONCE here (Expect...),   *)
(* from the reference codec, and are used                                  *)
(*   - by the state machine below (model checking of the design),          *)
(*   - by the generation configurations, which print them next to the      *)
(*     call arguments as vectors for the replayer (M direction),           *)
(*   - by Trace_Codec, which judges recorded calls of the real code with   *)
(*     them (T direction).                                                 *)
(* Serves C03 C05 C12 C13 (and C04/C19/C20 through the modules that extend *)
(* it).                                                                    *)
(***************************************************************************)
EXTENDS Domain, Json

Step(act, prop, soft, args, expect) == [act |-> act, prop |-> prop, soft |-> soft, args |-> args, expect |-> expect]
Ref(step, key) == [t |-> "ref", step |-> step, key |-> key]
Vector(fam, steps) == [fam |-> fam, defs |-> << >>, steps |-> steps]
NoCrash == [panic |-> FALSE]

-----------------------------------------------------------------------------
(* Expectations                                                            *)

\* (*IKEMessage).Encode on an encodable message: C05 direction 1 says the octets are a well-formed RFC 7296
\* datagram with zero reserved bits which the reference parser maps back to m.  For a value of the library's
\* domain that leaves exactly one octet string, EncMsg(m) (transforms are emitted grouped by container).
ExpectEncode(m) == [panic |-> FALSE, err |-> FALSE, wire |-> EncMsg(Norm(m)), junkok |-> TRUE]

\* a well-formed datagram judged on its own octets (C05 direction 1, used by the trace specification)
WellFormedFor(wire, m) ==
  LET r == ParseW(wire) IN
  /\ r.ok
  /\ ~HasUnk(r.v.payloads)
  /\ ChainRepresentable(r.v.payloads)
  /\ ChainRsvZero(r.v.payloads)
  /\ Eq(StripMsg(r.v), m)

\* (*IKEMessage).Decode / ike.DecodeDecrypt without keys on arbitrary octets (C03 C04 C05 C13)
ExpectDecode(wire) ==
  LET c == Classify(wire) IN
  CASE c.class = "value"    -> [panic |-> FALSE, capdiff |-> FALSE, err |-> FALSE, msg |-> c.v]
    [] c.class = "critical" -> [panic |-> FALSE, capdiff |-> FALSE, err |-> TRUE]
    [] OTHER                -> [panic |-> FALSE, capdiff |-> FALSE]

\* payload chain decoder (IKEPayloadContainer.Decode) on octets with a given first type
ClassifyChain(first, b) ==
  LET r == ParseChainW(first, b) IN
  IF ~r.ok THEN [class |-> IF r.why = "critical" THEN "critical" ELSE "free"]
  ELSE IF ~ChainRepresentable(r.v) THEN [class |-> "free"]
  ELSE LET d == StripChain(r.v) IN
       IF ChainEncodable(d) THEN [class |-> "value", v |-> NormChain(d)] ELSE [class |-> "free"]
ExpectDecodeChain(first, b) ==
  LET c == ClassifyChain(first, b) IN
  CASE c.class = "value"    -> [panic |-> FALSE, capdiff |-> FALSE, err |-> FALSE, payloads |-> c.v]
    [] c.class = "critical" -> [panic |-> FALSE, capdiff |-> FALSE, err |-> TRUE]
    [] OTHER                -> [panic |-> FALSE, capdiff |-> FALSE]

\* C12 on an accepted datagram: decode, encode, decode, encode
ExpectReencode(wire) ==
  IF Canonical(wire) THEN [panic |-> FALSE, c12 |-> "ok", same |-> TRUE]
                     ELSE [panic |-> FALSE, c12 |-> [oneof |-> << "ok", "na" >>]]

-----------------------------------------------------------------------------
(* Vectors                                                                 *)

\* encode / decode / re-encode of one encodable message
CodecVector(m) ==
  LET w == EncMsg(Norm(m)) IN
  Vector("codec", <<
    Step("encode",   "C05", TRUE,  [msg |-> m], ExpectEncode(m)),
    Step("decode",   "C03", FALSE, [wire |-> Ref(1, "wire"), caps |-> TRUE],
                                   [panic |-> FALSE, capdiff |-> FALSE, err |-> FALSE, msg |-> Norm(m)]),
    Step("decode",   "C05", FALSE, [wire |-> w, caps |-> FALSE], ExpectDecode(w)),
    Step("reencode", "C12", FALSE, [wire |-> w], ExpectReencode(w)) >>)

\* a refused encode leaves nothing behind: four times, a message the encoder must refuse at its second or later payload, then an
\* encodable message, which encodes to its reference octets and decodes back to itself
FailOkVector(bad, good) ==
  LET round(r) == << Step("encode", "C05", FALSE, [msg |-> bad], [panic |-> FALSE]),      \* (outside the domain: no claim beyond "no crash")
                     Step("encode", "C05", FALSE, [msg |-> good], ExpectEncode(good)),
                     Step("decode", "C03", FALSE, [wire |-> Ref(3 * r - 1, "wire"), caps |-> TRUE],
                          [panic |-> FALSE, capdiff |-> FALSE, err |-> FALSE, msg |-> Norm(good)]) >> IN
  Vector("codec_failok", round(1) \o round(2) \o round(3) \o round(4))

\* design-level theorem checked by TLC on every generated message: the reference codec is its own inverse
\* on the encodable domain and its output is canonical
RefCodecSound(m) ==
  LET w == EncMsg(Norm(m)) c == Classify(w) IN
  /\ Encodable(m)
  /\ c.class = "value" /\ c.v = Norm(m)
  /\ Canonical(w)
  /\ WellFormedFor(w, m)

\* C13: one unsupported payload inserted at position pos of the chain of m
\* sc = 1: the implemented payloads of the base message carry the critical flag themselves (it must be ignored on them)
WithCrit(w, sc) == [w EXCEPT !.payloads = [i \in 1..Len(w.payloads) |-> [w.payloads[i] EXCEPT !.crit = sc]]]
UsedFirst == [ispi |-> << 1, 2, 3, 4, 5, 6, 7, 8 >>, rspi |-> << 8, 7, 6, 5, 4, 3, 2, 1 >>, maj |-> 2, min |-> 0, xt |-> 37, flags |-> 8, mid |-> << 0, 0, 0, 9 >>,
              payloads |-> << [k |-> "NONCE", data |-> << 1, 2, 3, 4 >>], [k |-> "V", data |-> << 9, 9 >>] >>]
InsertVector(m, pos, t, crit, body, sc) ==
  LET w  == WithCrit(PlainMsg(Norm(m)), sc)
      w2 == [w EXCEPT !.payloads = InsertUnk(w.payloads, pos, t, crit, 0, body)]
      b  == EncMsgW(w2) IN
  Vector("insert", <<
    Step("decode", "C13", FALSE, [wire |-> b, caps |-> FALSE],
         IF crit = 1 THEN [panic |-> FALSE, capdiff |-> FALSE, err |-> TRUE]
                     ELSE [panic |-> FALSE, capdiff |-> FALSE, err |-> FALSE, msg |-> Norm(m)]),
    Step("decode_chain", "C13", FALSE, [first |-> FirstOf(w2.payloads), wire |-> EncChainW(w2.payloads), caps |-> FALSE],
         IF crit = 1 THEN [panic |-> FALSE, capdiff |-> FALSE, err |-> TRUE]
                     ELSE [panic |-> FALSE, capdiff |-> FALSE, err |-> FALSE, payloads |-> NormChain(m.payloads)]),
    \* an object that has already received a datagram receives this one: the skipped payload makes no difference there either
    Step("decode_used", "C13", FALSE, [first |-> EncMsg(Norm(UsedFirst)), wire |-> b, plain |-> EncMsg(Norm(m))],
         IF crit = 1 THEN [panic |-> FALSE] ELSE [panic |-> FALSE, usedsame |-> TRUE]),
    \* the same datagram through DecodeDecrypt without keys and with a pre-parsed header (the harness repeats the call with the
    \* same header object, with one parsed from the header octets alone and with one parsed from a buffer reused since)
    Step("unprotect", "C13", FALSE, [sa |-> "none", role |-> FALSE, wire |-> b, hdrmode |-> "pre", caps |-> FALSE],
         IF \E q \in 1..Len(m.payloads) : m.payloads[q].k = "SK" THEN [panic |-> FALSE]
         ELSE IF crit = 1 THEN [panic |-> FALSE, capdiff |-> FALSE, err |-> TRUE]
                          ELSE [panic |-> FALSE, capdiff |-> FALSE, err |-> FALSE, msg |-> Norm(m)]) >>)
InsertSound(m, pos, t, crit, body, sc) ==
  LET w  == WithCrit(PlainMsg(Norm(m)), sc)
      b  == EncMsgW([w EXCEPT !.payloads = InsertUnk(w.payloads, pos, t, crit, 0, body)])
      c  == Classify(b) IN
  IF crit = 1 THEN c.class = "critical" ELSE c.class = "value" /\ c.v = Norm(m)

\* C05 direction 2: a W-form value with sender liberties; the decoder must return Strip of it
LibertyVector(w) ==
  LET b == EncMsgW(w) IN
  Vector("liberty", <<
    Step("decode", "C05", FALSE, [wire |-> b, caps |-> FALSE], ExpectDecode(b)),
    Step("reencode", "C12", FALSE, [wire |-> b], ExpectReencode(b)) >>)
LibertySound(w) == LET c == Classify(EncMsgW(w)) IN c.class = "value" /\ c.v = Norm(StripMsg(w))
=============================================================================
