------------------------------ MODULE Gen_Codec ------------------------------
(* Generation configuration (M direction) for C03 / C05 / C12: every message of the pools.          *)
(* Two-level fan-out (part, then item) so that TLC's workers generate and judge parts in parallel;  *)
(* nothing is evaluated on the initial state (TLC's main thread has a small stack).                 *)
EXTENDS CodecLife, Pools
VARIABLES stage, part, m

Parts == {"KE", "ID", "CERT", "AUTH", "NV", "N", "D", "TS", "CP", "SA", "EAPaka", "EAPother", "long", "hdr", "max"} \cup { "pair" \o k : k \in PKindSet }
PartSet(p) ==
  CASE p = "KE" -> { Msg(1, << x >>) : x \in KEs }
    [] p = "ID" -> { Msg(1, << x >>) : x \in IDs }
    [] p = "CERT" -> { Msg(1, << x >>) : x \in CERTs }
    [] p = "AUTH" -> { Msg(1, << x >>) : x \in AUTHs }
    [] p = "NV" -> { Msg(1, << x >>) : x \in NVs }
    [] p = "N" -> { Msg(1, << x >>) : x \in Ns }
    [] p = "D" -> { Msg(1, << x >>) : x \in Ds }
    [] p = "TS" -> { Msg(1, << x >>) : x \in TSs }
    [] p = "CP" -> { Msg(1, << x >>) : x \in CPs }
    [] p = "SA" -> { Msg(1, << x >>) : x \in SAs }
    [] p = "EAPaka" -> { Msg(1, << [k |-> "EAP", eap |-> e] >>) : e \in EapAkas }
    [] p = "EAPother" -> { Msg(1, << [k |-> "EAP", eap |-> e] >>) : e \in EapOthers }
    [] p = "long" -> { Msg(1, c) : c \in ChainsLong }
    [] p = "hdr" -> { Msg(h, << Rep("N") >>) : h \in Hdrs } \cup { Msg(h, << >>) : h \in Hdrs }
    [] p = "max" -> { Msg(2, << x >>) : x \in (IF Thorough THEN MaxSized ELSE { y \in MaxSized : y.k \in {"KE", "N", "EAP"} }) }
    [] OTHER -> LET a == CHOOSE k \in PKindSet : p = "pair" \o k IN { Msg(1, << Rep(a), Rep(b) >>) : b \in PKindSet }

Init == stage = 0 /\ part = "" /\ m = << >>
Next == \/ stage = 0 /\ stage' = 1 /\ part' \in Parts /\ m' = << >>
        \/ stage = 1 /\ stage' = 2 /\ part' = part /\ m' \in PartSet(part)
        \/ stage = 2 /\ UNCHANGED << stage, part, m >>
Emit == stage = 2 => PrintT(ToJson(CodecVector(m)))
Sound == stage = 2 => RefCodecSound(m)
=============================================================================
