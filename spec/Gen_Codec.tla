------------------------------ MODULE Gen_Codec ------------------------------
(* Generation configuration (M direction) for C03 / C05 / C12: every message of the pools.          *)
(* Two-level fan-out (part, then item) so that TLC's workers generate and judge parts in parallel;  *)
(* nothing is evaluated on the initial state (TLC's main thread has a small stack).                 *)
EXTENDS CodecLife, Pools
VARIABLES stage, part, m

TwinSet(S) == LET a == CHOOSE x \in S : TRUE
                  b == CHOOSE y \in S : BodyLen(y) # BodyLen(a) IN
              { Msg(1, << a, b >>), Msg(1, << b, a >>), Msg(1, << a, b, a >>) }
EapTwins == { CHOOSE e \in EapAkas : TRUE, CHOOSE e \in EapOthers : TRUE, CHOOSE e \in EapOthers : e # (CHOOSE f \in EapOthers : TRUE) }
\* messages the encoder refuses at the second or a later payload (outside the encodable domain), and messages it encodes
BadSecond == { Msg(1, << Rep("N"), [k |-> "TSi", sel |-> << >>] >>),
               Msg(2, << Rep("NONCE"), Rep("KE"), [k |-> "SA", props |-> << [num |-> 1, proto |-> 1, spi |-> << >>, tr |-> << >>] >>] >>),
               Msg(3, << Rep("KE"), [k |-> "D", proto |-> 3, spisz |-> 4, num |-> 3, spis |-> << D(4, 18), D(4, 19) >>] >>),
               Msg(4, << Rep("V"), Rep("IDi"), [k |-> "V", data |-> D(70000, 3)] >>),
               Msg(1, << Rep("IDr"), [k |-> "CP", cft |-> 1, attrs |-> << >>] >>) }
GoodAfter == { Msg(1, << Rep("IDi"), Rep("AUTH") >>), Msg(3, << Rep("N") >>), Msg(5, << Rep("SA"), Rep("TSi"), Rep("TSr") >>) }

Parts == {"KE", "ID", "CERT", "AUTH", "NV", "N", "D", "TS", "CP", "SA", "EAPaka", "EAPother", "long", "hdr", "max", "twins", "failok", "edges", "notifyhdr"} \cup { "pair" \o k : k \in PKindSet }
PartSet(p) ==
  CASE p = "KE" -> { Msg(1, << x >>) : x \in KEs }
    [] p = "ID" -> { Msg(1, << x >>) : x \in IDs }
    [] p = "CERT" -> { Msg(1, << x >>) : x \in CERTs }
    [] p = "AUTH" -> { Msg(1, << x >>) : x \in AUTHs }
    [] p = "NV" -> { Msg(1, << x >>) : x \in NVs }
    [] p = "N" -> { Msg(1, << x >>) : x \in Ns }
    [] p = "D" -> { Msg(1, << x >>) : x \in Ds }
    [] p = "TS" -> { Msg(1, << x >>) : x \in TSs }
    [] p = "CP" -> { Msg(1, << x >>) : x \in CPs }
    [] p = "SA" -> { Msg(1, << x >>) : x \in SAs }
    [] p = "EAPaka" -> { Msg(1, << [k |-> "EAP", eap |-> e] >>) : e \in EapAkas }
    [] p = "EAPother" -> { Msg(1, << [k |-> "EAP", eap |-> e] >>) : e \in EapOthers }
    [] p = "long" -> { Msg(1, c) : c \in ChainsLong }
    [] p = "hdr" -> { Msg(h, << Rep("N") >>) : h \in Hdrs } \cup { Msg(h, << >>) : h \in Hdrs }
    [] p = "max" -> { Msg(2, << x >>) : x \in (IF Thorough THEN MaxSized ELSE { y \in MaxSized : y.k \in {"KE", "N", "EAP"} }) }
    \* two payloads of one pool with different contents and sizes next to each other (all ordered pairs of SA payloads)
    [] p = "twins" -> UNION { TwinSet(S) : S \in { KEs, IDs, CERTs, AUTHs, NVs, Ns, TSs, CPs } }
                      \cup { Msg(1, << q[1], q[2] >>) : q \in { r \in SAs \X SAs : r[1] # r[2] } }
                      \cup { Msg(1, << [k |-> "EAP", eap |-> q[1]], [k |-> "EAP", eap |-> q[2]] >>) : q \in { r \in EapTwins \X EapTwins : r[1] # r[2] } }
    [] p = "notifyhdr" -> NotifyHdrMsgs
    [] p = "edges" -> { Msg(3, << x >>) : x \in EdgeSingles }
    [] p = "failok" -> { [bad |-> b, good |-> g] : b \in BadSecond, g \in GoodAfter }
    [] OTHER -> LET a == CHOOSE k \in PKindSet : p = "pair" \o k IN { Msg(1, << Rep(a), Rep(b) >>) : b \in PKindSet }

Init == stage = 0 /\ part = "" /\ m = << >>
Next == \/ stage = 0 /\ stage' = 1 /\ part' \in Parts /\ m' = << >>
        \/ stage = 1 /\ stage' = 2 /\ part' = part /\ m' \in PartSet(part)
        \/ stage = 2 /\ UNCHANGED << stage, part, m >>
Emit == stage = 2 => PrintT(ToJson(IF part = "failok" THEN FailOkVector(m.bad, m.good) ELSE CodecVector(m)))
Sound == stage = 2 => IF part = "failok" THEN RefCodecSound(m.good) /\ ~Encodable(m.bad) ELSE RefCodecSound(m)
=============================================================================
