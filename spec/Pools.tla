-------------------------------- MODULE Pools --------------------------------
(***************************************************************************)
(* Finite value pools over the encodable domain, used by the generation    *)
(* configurations (M direction) and by the exhaustive design checks.       *)
(* Boundary values of every scalar field, boundary sizes of every octet    *)
(* string, every payload kind, every ordered pair of kinds.  Contents are  *)
(* seeded patterns (Octets!Seeded) so that VERIF_SEED changes every octet. *)
(***************************************************************************)
EXTENDS Domain

CONSTANTS Seed,        \* integer salt for data contents
          Thorough     \* BOOLEAN: larger pools

D(n, s) == Seeded(n, Seed + s)

\* ------------------------------------------------------------------ contents with edges
\* The wire format and the key schedule treat every octet alike; code may not (zero octets trimmed as padding or as a terminator, octets
\* >= 0x80 through a signed type, white space trimmed from a name, letters folded, a big-endian number losing leading zeros).  Every
\* octet-string field of the pools therefore also takes contents whose FIRST / LAST / ALL octets are such values.
EdgeClasses == << "lead0", "trail0", "zeros", "ones", "lead80", "trail80", "sp", "tab", "crlf", "nbsp", "upper", "lower", "mid0", "lead00", "trail00" >>
EdgeOctet(cls) == CASE cls \in {"lead0", "trail0", "zeros", "mid0", "lead00", "trail00"} -> 0 [] cls = "ones" -> 255 [] cls \in {"lead80", "trail80"} -> 128
                    [] cls = "sp" -> 32 [] cls = "tab" -> 9 [] cls = "crlf" -> 10 [] cls = "nbsp" -> 160 [] cls = "upper" -> 74 [] OTHER -> 106
\* letters only (case folding), for "upper" / "lower"
Letters(n, base, s) == [i \in 1..n |-> base + ((s + i * 5) % 26)]
\* body octets that are themselves none of the special values (so that exactly the edge carries the property)
Plain(n, s) == [i \in 1..n |-> 33 + ((s * 7 + i * 11) % 31)]        \* 0x21..0x3f: printable, no letters, no space
Edge(cls, n, s) ==
  LET o == EdgeOctet(cls) IN
  IF n = 0 THEN << >>
  ELSE CASE cls \in {"zeros", "ones"} -> Const(n, o)
         [] cls = "upper" -> Letters(n, 65, s)
         [] cls = "lower" -> Letters(n, 97, s)
         [] cls \in {"lead0", "lead80"} -> << o >> \o Plain(n - 1, s)
         [] cls \in {"trail0", "trail80"} -> Plain(n - 1, s) \o << o >>
         [] cls = "lead00" -> IF n < 3 THEN Const(n, 0) ELSE << 0, 0 >> \o Plain(n - 2, s)
         [] cls = "trail00" -> IF n < 3 THEN Const(n, 0) ELSE Plain(n - 2, s) \o << 0, 0 >>
         [] cls = "mid0" -> IF n < 3 THEN Plain(n, s) ELSE Plain(1, s) \o Const(n - 2, 0) \o Plain(1, s + 1)
         [] cls = "nbsp" -> IF n < 5 THEN Const(n, o) ELSE << 194, 160 >> \o Plain(n - 4, s) \o << 194, 133 >>     \* U+00A0 ... U+0085
         [] OTHER -> IF n < 3 THEN Const(n, o) ELSE << o >> \o Plain(n - 2, s) \o << o >>                       \* sp, tab, crlf: both ends
EdgeSet == { EdgeClasses[i] : i \in 1..Len(EdgeClasses) }

Tr(tt, tid, attr, at, av, avl) == [c |-> tt, tt |-> tt, tid |-> tid, attr |-> attr, at |-> at, av |-> av, avl |-> avl]
TrNone(tt, tid)        == Tr(tt, tid, "none", 0, 0, << >>)
TrTV(tt, tid, at, av)  == Tr(tt, tid, "tv", at, av, << >>)
TrTLV(tt, tid, at, vl) == Tr(tt, tid, "tlv", at, 0, vl)

Hdr(i) == CASE i = 1 -> [ispi |-> Ramp(8, 1), rspi |-> Zeros(8), maj |-> 2, min |-> 0, xt |-> 34, flags |-> 8, mid |-> << 0, 0, 0, 0 >>]
            [] i = 2 -> [ispi |-> Const(8, 255), rspi |-> D(8, 1), maj |-> 15, min |-> 15, xt |-> 255, flags |-> 255, mid |-> << 255, 255, 255, 255 >>]
            [] i = 3 -> [ispi |-> D(8, 2), rspi |-> D(8, 3), maj |-> 0, min |-> 0, xt |-> 0, flags |-> 32, mid |-> << 128, 0, 0, 1 >>]
            [] i = 4 -> [ispi |-> Zeros(8), rspi |-> Ramp(8, 200), maj |-> 2, min |-> 1, xt |-> 37, flags |-> 40, mid |-> << 0, 1, 0, 0 >>]
            [] i = 5 -> [ispi |-> D(8, 4), rspi |-> D(8, 5), maj |-> 1, min |-> 8, xt |-> 36, flags |-> 16, mid |-> << 0, 0, 255, 254 >>]
            \* values strictly inside the ranges: an initiator SPI below 2^32, message IDs with a single octet set (0x00200005, 256, 2^29),
            \* exchange types 35..37, flags with one bit
            [] i = 6 -> [ispi |-> << 0, 0, 0, 0, 0, 6, 247, 8 >>, rspi |-> D(8, 6), maj |-> 2, min |-> 0, xt |-> 37, flags |-> 8, mid |-> << 0, 32, 0, 5 >>]
            [] i = 7 -> [ispi |-> Zeros(7) \o << 1 >>, rspi |-> Zeros(8), maj |-> 2, min |-> 0, xt |-> 35, flags |-> 40, mid |-> << 0, 0, 1, 0 >>]
            [] i = 8 -> [ispi |-> << 32, 32, 32, 32, 0, 0, 0, 0 >>, rspi |-> << 0, 0, 0, 0, 46, 46, 46, 46 >>, maj |-> 2, min |-> 0, xt |-> 36, flags |-> 32, mid |-> << 32, 0, 0, 0 >>]
            [] i = 9 -> [ispi |-> D(8, 7), rspi |-> Const(8, 255), maj |-> 2, min |-> 0, xt |-> 38, flags |-> 0, mid |-> << 0, 0, 32, 46 >>]
            [] i = 10 -> [ispi |-> Const(4, 255) \o Zeros(4), rspi |-> D(8, 8), maj |-> 2, min |-> 0, xt |-> 43, flags |-> 8, mid |-> << 127, 255, 255, 255 >>]
Hdrs == 1..10
Msg(h, ps) == Hdr(h) @@ [payloads |-> ps]

\* ------------------------------------------------------------------ per-kind payload pools (D-form)
KEs   == { [k |-> "KE", grp |-> g, data |-> D(n, g)] : g \in {0, 2, 14, 255, 256, 65535}, n \in {1, 2, 128, 256} }
IDs   == { [k |-> kk, idt |-> t, data |-> D(n, t + 7)] : kk \in {"IDi", "IDr"}, t \in {0, 1, 11, 255}, n \in {1, 5, 300} }
CERTs == { [k |-> kk, enc |-> e, data |-> D(n, e + 11)] : kk \in {"CERT", "CERTREQ"}, e \in {0, 4, 255}, n \in {1, 20, 1000} }
AUTHs == { [k |-> "AUTH", meth |-> m, data |-> D(n, m + 13)] : m \in {0, 2, 255}, n \in {1, 20, 256} }
NVs   == { [k |-> kk, data |-> D(n, n + 17)] : kk \in {"NONCE", "V"}, n \in {0, 1, 16, 256} }
Ns    == { [k |-> "N", proto |-> p, ntype |-> nt, spi |-> D(sn, 19), data |-> D(n, 23)] :
             p \in (IF Thorough THEN {0, 1, 3, 255} ELSE {0, 3}),
             nt \in (IF Thorough THEN {0, 1, 16384, 16388, 55501, 65535} ELSE {1, 16388, 65535}),
             sn \in {0, 4, 8, 255}, n \in {0, 1, 40} }
Ds    == { [k |-> "D", proto |-> 1, spisz |-> 0, num |-> 0, spis |-> << >>] }
         \cup { [k |-> "D", proto |-> p, spisz |-> 4, num |-> n, spis |-> [i \in 1..n |-> D(4, i + 29)]] : p \in {2, 3}, n \in {0, 1, 2, 3, 50, 300} }
         \* lists in which an SPI repeats (a list is a list: [A A B], [A B A], [A A], zero / all-ones SPIs)
         \cup { [k |-> "D", proto |-> 3, spisz |-> 4, num |-> Len(l), spis |-> [i \in 1..Len(l) |-> IF l[i] = 0 THEN Zeros(4) ELSE IF l[i] = 9 THEN Const(4, 255) ELSE D(4, l[i] + 29)]] :
                   l \in { << 1, 1, 2 >>, << 1, 2, 1 >>, << 1, 1 >>, << 1, 2, 2, 3, 1 >>, << 0, 9, 0 >>, << 0 >>, << 2, 1, 1, 1 >> } }

Sel4(p, sp, ep, s) == [tst |-> 7, proto |-> p, sp |-> sp, ep |-> ep, sa |-> D(4, s), ea |-> D(4, s + 100)]
Sel6(p, sp, ep, s) == [tst |-> 8, proto |-> p, sp |-> sp, ep |-> ep, sa |-> D(16, s), ea |-> D(16, s + 100)]
\* addresses an implementation may look INTO although a selector only carries them: all zeros / ones, loopback, an IPv4 address in
\* IPv6 clothes (::ffff:a.b.c.d, ::a.b.c.d), edges of zero octets
Addr4s == { Zeros(4), Const(4, 255), << 127, 0, 0, 1 >>, << 0, 0, 0, 1 >>, << 10, 0, 0, 0 >>, << 224, 0, 0, 251 >> }
Addr6s == { Zeros(16), Const(16, 255), Zeros(15) \o << 1 >>, Zeros(10) \o << 255, 255, 10, 0, 0, 1 >>, Zeros(12) \o << 192, 168, 0, 1 >>,
            << 254, 128 >> \o Zeros(13) \o << 1 >>, << 32, 1, 13, 184 >> \o Zeros(12), Zeros(10) \o << 255, 255, 255, 255, 255, 255 >> }
SelA(tst, sa, ea) == [tst |-> tst, proto |-> 6, sp |-> 1, ep |-> 65534, sa |-> sa, ea |-> ea]
SelAddrLists == { << SelA(7, a, a) >> : a \in Addr4s } \cup { << SelA(8, a, a) >> : a \in Addr6s }
                 \cup { << SelA(8, Zeros(16), Const(16, 255)), SelA(7, Zeros(4), Const(4, 255)) >>,
                        << SelA(8, Zeros(10) \o << 255, 255, 10, 0, 0, 1 >>, Zeros(10) \o << 255, 255, 10, 0, 0, 254 >>), SelA(8, Zeros(15) \o << 1 >>, Zeros(15) \o << 1 >>) >>,
                        \* the same selector twice, and a list in which a selector repeats after another one
                        << Sel4(6, 256, 1, 33), Sel4(6, 256, 1, 33) >>, << Sel6(17, 1, 2, 34), Sel4(6, 256, 1, 33), Sel6(17, 1, 2, 34), Sel6(17, 1, 2, 34) >> }
SelLists == SelAddrLists \cup { << Sel4(0, 0, 65535, 31) >>,
              << Sel6(17, 1, 256, 32) >>,
              << Sel4(6, 256, 1, 33), Sel6(255, 65535, 0, 34) >>,
              << Sel6(1, 2, 3, 35), Sel4(47, 4660, 22136, 36), Sel4(0, 65535, 65535, 37) >>,
              [i \in 1..255 |-> Sel4(i, i, 65535 - i, i)] }
TSs   == { [k |-> kk, sel |-> sl] : kk \in {"TSi", "TSr"}, sl \in SelLists }

CA(t, v) == [t |-> t, v |-> v]
CfgLists == { << CA(1, << >>) >>, << CA(1, D(4, 41)) >>, << CA(32767, D(1, 42)) >>,
              << CA(3, D(4, 43)), CA(8, D(17, 44)), CA(16384, << >>) >>, << CA(2, D(300, 45)) >>, << CA(0, D(2, 46)), CA(0, D(2, 47)) >> }
CPs   == { [k |-> "CP", cft |-> c, attrs |-> al] : c \in {0, 1, 2, 255}, al \in CfgLists }

TA == << TrTV(1, 12, 14, 128), TrNone(2, 2), TrNone(3, 2), TrNone(4, 14) >>
TB == << TrTV(1, 12, 14, 256), TrTV(1, 12, 14, 192), TrNone(2, 5), TrNone(2, 2), TrNone(3, 12), TrNone(3, 2),
         TrNone(4, 2), TrNone(4, 14), TrNone(5, 0), TrNone(5, 1) >>
TC == << TrTLV(1, 65535, 300, D(3, 51)), TrTV(1, 1, 142, 1), TrTLV(2, 7, 16385, D(1, 52)), TrTV(3, 0, 32767, 65535), TrTLV(5, 1, 14, D(300, 53)) >>
TD == << TrNone(5, 0) >>
TE == << TrTV(1, 12, 14, 0), TrTV(2, 65535, 0, 65535), TrTV(3, 256, 127, 128), TrTV(4, 255, 128, 255), TrTV(5, 2, 255, 256), TrTLV(4, 0, 0, << 0 >>) >>
\* sweeps over transform identifiers: every ENCR id 0..31 (fixed-key-size ciphers included) with a Key Length attribute, every id
\* 0..15 of the other types with the same attribute, another attribute type
TFX == [i \in 1..32 |-> TrTV(1, i - 1, 14, IF i % 2 = 0 THEN 192 ELSE 128)]
TGX == [i \in 1..64 |-> TrTV(((i - 1) \div 16) + 2, (i - 1) % 16, 14, 256)]
THX == [i \in 1..32 |-> TrTV(1, i - 1, 15, i)]
\* transform type x attribute type {14, 15} x variable-length value of 1..4 octets (full product; a Key Length that arrives -- or is
\* held -- in the variable-length format stays in that format)
TAX == [i \in 1..40 |-> TrTLV(((i - 1) \div 8) + 1, 12, 14 + (((i - 1) \div 4) % 2), D(((i - 1) % 4) + 1, 60 + i))]
TAY == [i \in 1..10 |-> TrTLV(((i - 1) \div 2) + 1, IF i % 2 = 0 THEN 12 ELSE 3, 14, << i \div 2, 128 >>)]
Prop(num, proto, sn, trs) == [num |-> num, proto |-> proto, spi |-> D(sn, 55 + sn + 3 * num), tr |-> trs]
PropLists == { << >>, << Prop(1, 1, 0, TA) >>, << Prop(1, 3, 4, TB) >>, << Prop(0, 0, 255, TC) >>, << Prop(255, 255, 8, TD) >>,
               << Prop(2, 2, 1, TE) >>, << Prop(1, 1, 8, TA), Prop(2, 1, 8, TB), Prop(3, 3, 4, TD) >>,
               << Prop(1, 1, 0, TC), Prop(1, 1, 0, TC) >>,
               << Prop(1, 1, 0, TFX) >>, << Prop(2, 3, 4, TGX) >>, << Prop(3, 1, 8, THX), Prop(4, 3, 4, TFX) >>,
               << Prop(9, 3, 4, [i \in 1..250 |-> TB[((i - 1) \div 25) + 1]]) >>,        \* 250 transforms, grouped by type
               << Prop(1, 1, 0, TAX) >>, << Prop(1, 3, 4, TAY), Prop(2, 1, 0, TAY) >> }
SAs   == { [k |-> "SA", props |-> pl] : pl \in PropLists }

AV(t, n) == [t |-> t, v |-> D(n, 60 + t)]
AkaDefaultLen(t) == CASE t \in AkaFixed16 -> 16 [] t = AT_RES -> 5 [] t = AT_KDF_INPUT -> 7 [] t = AT_KDF -> 2 [] t = AT_CHECKCODE -> 20
AkaSeq == << AT_RAND, AT_AUTN, AT_RES, AT_MAC, AT_KDF_INPUT, AT_KDF, AT_CHECKCODE >>   \* ascending
AkaOfSubset(S) == LET s == SelectSeq(AkaSeq, LAMBDA t : t \in S) IN [i \in 1..Len(s) |-> AV(s[i], AkaDefaultLen(s[i]))]
Aka(code, id, sub, attrs) == [code |-> code, id |-> id, m |-> "aka", sub |-> sub, attrs |-> attrs]
AkaSubsets == IF Thorough THEN SUBSET AkaSettable
              ELSE { S \in SUBSET AkaSettable : Cardinality(S) \in {0, 1, 2, 6, 7} }
               \cup { {AT_RAND, AT_AUTN, AT_MAC}, {AT_RES, AT_MAC, AT_CHECKCODE}, {AT_KDF, AT_KDF_INPUT, AT_MAC}, {AT_RAND, AT_AUTN, AT_KDF, AT_KDF_INPUT, AT_MAC} }
EapAkas ==
  { Aka(1, 9, 1, AkaOfSubset(S)) : S \in AkaSubsets }
  \cup { Aka(2, 255, 5, << AV(AT_RES, n) >>) : n \in 4..16 }
  \cup { Aka(2, 0, 255, << AV(AT_KDF_INPUT, n) >>) : n \in {0, 1, 2, 3, 4, 5, 8, 9, 251, 252, 253, 300} }
  \cup { Aka(1, 1, 13, << AV(AT_CHECKCODE, n) >>) : n \in {0, 20, 32} }
  \cup { Aka(1, 2, 1, << AV(AT_RAND, 16), AV(AT_RES, n), AV(AT_MAC, 16) >>) : n \in {4, 6, 7, 16} }
EapOthers ==
  { [code |-> c, id |-> i, m |-> "none"] : c \in {3, 4}, i \in {0, 255} }
  \cup { [code |-> c, id |-> 7, m |-> mm, data |-> D(n, 71)] : c \in {1, 2}, mm \in EapSimple, n \in {1, 2, 255} }
  \cup { [code |-> 2, id |-> 8, m |-> "expanded", vid |-> vid, vtype |-> vt, data |-> D(n, 73)] :
           vid \in {0, 1, 10415, 16777215}, vt \in { << 0, 0, 0, 3 >>, << 255, 255, 255, 255 >> }, n \in {0, 2, 100} }
  \* Expanded types whose vendor id / vendor type COINCIDE with codes the codec knows for other purposes: vendor 0 (IETF) with the
  \* one-octet type codes 1..6, 13, 23, 50, 254, 255 as vendor type, the same under the 3GPP vendor id, vendor types 1..3 under vendor 1;
  \* with data that looks like an EAP-AKA' body, and with none -- an Expanded packet stays an Expanded packet
  \cup { [code |-> 1 + (vt % 2), id |-> vt % 256, m |-> "expanded", vid |-> vid, vtype |-> << 0, 0, vt \div 256, vt % 256 >>, data |-> dt] :
           vid \in {0, 1, 10415}, vt \in {0, 1, 2, 3, 4, 5, 6, 13, 18, 23, 50, 254, 255, 256, 306}, dt \in { << >>, << 1, 0, 0, 24, 1, 0, 1 >>, D(9, 77) } }
  \cup { Eap5GStart(3), Eap5GNas(4, D(1, 75)), Eap5GNas(5, D(300, 76)) }
EAPs == { [k |-> "EAP", eap |-> e] : e \in EapAkas \cup EapOthers }

\* every octet-string field of every payload kind with edge contents (see Edge above), sizes 1, 2 and 9
EdgePayloads(e, e16) ==
  { [k |-> "KE", grp |-> 14, data |-> e], [k |-> "IDi", idt |-> 2, data |-> e], [k |-> "IDr", idt |-> 3, data |-> e],
    [k |-> "CERT", enc |-> 4, data |-> e], [k |-> "CERTREQ", enc |-> 4, data |-> e], [k |-> "AUTH", meth |-> 2, data |-> e],
    [k |-> "NONCE", data |-> e], [k |-> "V", data |-> e],
    [k |-> "N", proto |-> 3, ntype |-> 16393, spi |-> e, data |-> << 1, 2 >>], [k |-> "N", proto |-> 0, ntype |-> 16390, spi |-> << >>, data |-> e],
    [k |-> "CP", cft |-> 2, attrs |-> << CA(1, e), CA(8, << >>), CA(3, e) >>],
    [k |-> "SA", props |-> << [num |-> 1, proto |-> 3, spi |-> e, tr |-> << TrTV(1, 12, 14, 128), TrTLV(1, 12, 300, e), TrNone(3, 2) >>] >>],
    [k |-> "EAP", eap |-> [code |-> 2, id |-> 128, m |-> "identity", data |-> e]],
    [k |-> "EAP", eap |-> [code |-> 1, id |-> 64, m |-> "notification", data |-> e]],
    [k |-> "EAP", eap |-> [code |-> 2, id |-> 32, m |-> "nak", data |-> e]],
    [k |-> "EAP", eap |-> [code |-> 2, id |-> 16, m |-> "expanded", vid |-> 10415, vtype |-> << 0, 0, 0, 3 >>, data |-> e]],
    [k |-> "EAP", eap |-> Aka(1, 129, 1, << [t |-> AT_RAND, v |-> e16], [t |-> AT_RES, v |-> IF Len(e) < 4 THEN e16 ELSE e], [t |-> AT_KDF_INPUT, v |-> e] >>)],
    [k |-> "EAP", eap |-> Aka(2, 200, 1, << [t |-> AT_AUTN, v |-> e16], [t |-> AT_MAC, v |-> e16], [t |-> AT_KDF, v |-> << e16[1], e16[16] >>], [t |-> AT_CHECKCODE, v |-> e16 \o SubSeq(e16, 13, 16)] >>)] }
EdgeSingles == UNION { EdgePayloads(Edge(c, n, n + 3), Edge(c, 16, n + 5)) : c \in EdgeSet, n \in {1, 2, 9} }

AllSingles == KEs \cup IDs \cup CERTs \cup AUTHs \cup NVs \cup Ns \cup Ds \cup TSs \cup CPs \cup SAs \cup EAPs

\* one representative per kind (for ordered pairs and longer lists)
Rep(k) == CASE k = "SA" -> [k |-> "SA", props |-> << Prop(1, 1, 8, TA), Prop(2, 3, 4, TD) >>]
            [] k = "KE" -> [k |-> "KE", grp |-> 14, data |-> D(8, 81)]
            [] k = "IDi" -> [k |-> "IDi", idt |-> 2, data |-> D(5, 82)]
            [] k = "IDr" -> [k |-> "IDr", idt |-> 1, data |-> D(4, 83)]
            [] k = "CERT" -> [k |-> "CERT", enc |-> 4, data |-> D(9, 84)]
            [] k = "CERTREQ" -> [k |-> "CERTREQ", enc |-> 4, data |-> D(20, 85)]
            [] k = "AUTH" -> [k |-> "AUTH", meth |-> 2, data |-> D(20, 86)]
            [] k = "NONCE" -> [k |-> "NONCE", data |-> D(16, 87)]
            [] k = "N" -> [k |-> "N", proto |-> 3, ntype |-> 16393, spi |-> D(4, 88), data |-> D(3, 89)]
            [] k = "D" -> [k |-> "D", proto |-> 3, spisz |-> 4, num |-> 2, spis |-> << D(4, 90), D(4, 91) >>]
            [] k = "V" -> [k |-> "V", data |-> D(6, 92)]
            [] k = "TSi" -> [k |-> "TSi", sel |-> << Sel4(6, 256, 1, 93), Sel6(255, 65535, 0, 94) >>]
            [] k = "TSr" -> [k |-> "TSr", sel |-> << Sel6(17, 7, 9, 95) >>]
            [] k = "CP" -> [k |-> "CP", cft |-> 2, attrs |-> << CA(1, D(4, 96)), CA(16384, << >>) >>]
            [] k = "EAP" -> [k |-> "EAP", eap |-> Aka(1, 9, 1, AkaOfSubset({AT_RAND, AT_AUTN, AT_KDF, AT_KDF_INPUT, AT_MAC}))]
PKinds == << "SA", "KE", "IDi", "IDr", "CERT", "CERTREQ", "AUTH", "NONCE", "N", "D", "V", "TSi", "TSr", "CP", "EAP" >>
PKindSet == { PKinds[i] : i \in 1..Len(PKinds) }

\* payloads at the 16-bit payload-length limit (4 + body = 65535)
MaxSized == { [k |-> "KE", grp |-> 2, data |-> D(65527, 1)], [k |-> "NONCE", data |-> D(65531, 2)],
              [k |-> "CERT", enc |-> 4, data |-> D(65530, 3)], [k |-> "N", proto |-> 0, ntype |-> 1, spi |-> D(255, 4), data |-> D(65272, 5)],
              [k |-> "V", data |-> D(65531, 6)], [k |-> "IDi", idt |-> 1, data |-> D(65527, 7)],
              [k |-> "CP", cft |-> 1, attrs |-> << CA(1, D(65523, 8)) >>],
              [k |-> "EAP", eap |-> [code |-> 1, id |-> 1, m |-> "identity", data |-> D(65526, 9)]] }

\* header fields x Notify types that carry protocol meaning (COOKIE 16390, INVALID_KE_PAYLOAD 17, NO_PROPOSAL_CHOSEN 14, a status type): the
\* codec treats a Notify as a Notify and a header as a header whatever the exchange type, the flags and the SPIs say -- full product
Nt(t, n) == [k |-> "N", proto |-> 0, ntype |-> t, spi |-> << >>, data |-> D(n, t)]
NotifyChains == { << Nt(16390, 20) >>, << Nt(17, 2) >>, << Nt(14, 0), Nt(16390, 8) >>, << Rep("SA"), Rep("KE"), Rep("NONCE"), Nt(16390, 20), Nt(16388, 20) >>,
                  << Nt(16388, 20), Rep("NONCE"), Nt(16390, 64) >> }
NotifyHdrMsgs == { [ispi |-> D(8, 2), rspi |-> r, maj |-> 2, min |-> 0, xt |-> x, flags |-> f, mid |-> << 0, 0, 0, m >>, payloads |-> c] :
                     r \in { Zeros(8), D(8, 3) }, x \in {34, 35, 36, 37}, f \in {0, 8, 32, 40}, m \in {0, 1}, c \in NotifyChains }

\* message pool: chains of payloads
Chains1 == { << p >> : p \in AllSingles }
Chains2 == { << Rep(a), Rep(b) >> : a \in PKindSet, b \in PKindSet }
ChainAll == [i \in 1..Len(PKinds) |-> Rep(PKinds[i])]
ChainsLong == { ChainAll, [i \in 1..Len(PKinds) |-> Rep(PKinds[Len(PKinds) + 1 - i])],
                << Rep("SA"), Rep("KE"), Rep("NONCE"), Rep("N"), Rep("N") >>,
                << Rep("IDi"), Rep("CERTREQ"), Rep("AUTH"), Rep("CP"), Rep("SA"), Rep("TSi"), Rep("TSr") >>,
                \* chains longer than 1.5 KB, 4 KB and 64 KB in total (every payload still fits the 16-bit payload length)
                << Rep("N"), [k |-> "CERT", enc |-> 4, data |-> D(1400, 1)], Rep("AUTH"), Rep("NONCE") >>,
                << [k |-> "V", data |-> D(3000, 2)], [k |-> "KE", grp |-> 14, data |-> D(2000, 3)], Rep("SA"), Rep("EAP") >>,
                << [k |-> "KE", grp |-> 2, data |-> D(30000, 4)], [k |-> "CERT", enc |-> 4, data |-> D(30000, 5)], [k |-> "V", data |-> D(30000, 6)], Rep("N") >> }
=============================================================================
