------------------------------ MODULE EAPWire ------------------------------
(***************************************************************************)
(* Independent reference codec for EAP packets (RFC 3748 section 4, 5,     *)
(* 5.7), the EAP-AKA' method (RFC 4187 section 8.1 / 10, RFC 5448 section  *)
(* 3) and the 3GPP TS 24.502 section 9.3 layouts (EAP-5G, 3GPP Notify      *)
(* payload data).  Written from the RFC text, not from the Go code.        *)
(*                                                                         *)
(* Two value levels:                                                       *)
(*   W-form  everything that is on the wire (reserved fields, attribute    *)
(*           wire order, padding octets)                                   *)
(*   D-form  what a user of the library sees (code, identifier, method     *)
(*           data; AKA' attributes by type through the public accessors)   *)
(* EncEapW : W -> octets,  ParseEapW : octets -> Ok(W) | Err,              *)
(* EapStrip : W -> D,  EapPlain : D -> W (canonical: zero reserved, zero   *)
(* padding, ascending attribute types).                                    *)
(***************************************************************************)
EXTENDS Octets

AT_RAND == 1   AT_AUTN == 2   AT_RES == 3   AT_AUTS == 4   AT_MAC == 11
AT_KDF_INPUT == 23   AT_KDF == 24   AT_CHECKCODE == 134

AkaFixed16 == {AT_RAND, AT_AUTN, AT_MAC}      \* length 5 words, 2 reserved octets, 16 value octets
AkaBitLen  == {AT_RES, AT_KDF_INPUT}          \* 2-octet actual length in bits, value, zero padding
AkaSettable == {AT_RAND, AT_AUTN, AT_RES, AT_MAC, AT_KDF_INPUT, AT_KDF, AT_CHECKCODE}

EapTypeCode(m) == CASE m = "identity" -> 1 [] m = "notification" -> 2 [] m = "nak" -> 3
                    [] m = "aka" -> 50 [] m = "expanded" -> 254 [] OTHER -> 0
EapSimple == {"identity", "notification", "nak"}

PadTo4(n) == (4 - (n % 4)) % 4

-----------------------------------------------------------------------------
(* EAP-AKA' attributes.  W-form: [t, rsv, v, pad].                          *)
(*   t in AkaFixed16 / CHECKCODE : rsv = the 2 reserved octets (as int)     *)
(*   t in AkaBitLen              : rsv = the 2-octet bit length field       *)
(*   others                      : rsv = 0, v = everything after the length *)

EncAkaAttrW(a) ==
  CASE a.t \in AkaFixed16    -> << a.t, 5 >> \o U16(a.rsv) \o a.v
    [] a.t \in AkaBitLen     -> << a.t, (4 + Len(a.v) + Len(a.pad)) \div 4 >> \o U16(a.rsv) \o a.v \o a.pad
    [] a.t = AT_KDF          -> << a.t, 1 >> \o a.v
    [] a.t = AT_CHECKCODE    -> << a.t, (4 + Len(a.v)) \div 4 >> \o U16(a.rsv) \o a.v
    [] OTHER                 -> << a.t, (2 + Len(a.v)) \div 4 >> \o a.v

AkaAttrPlain(d) ==
  [t |-> d.t,
   rsv |-> IF d.t \in AkaBitLen THEN 8 * Len(d.v) ELSE 0,
   v |-> d.v,
   pad |-> IF d.t \in AkaBitLen THEN Zeros(PadTo4(4 + Len(d.v))) ELSE << >>]

AkaAttrStrip(a) == [t |-> a.t, v |-> a.v]

AkaAttrRsvZero(a) ==
  CASE a.t \in AkaFixed16 \/ a.t = AT_CHECKCODE -> a.rsv = 0
    [] a.t \in AkaBitLen -> a.rsv = 8 * Len(a.v) /\ AllZero(a.pad)
    [] OTHER -> TRUE

\* one attribute from its 4*len octets
ParseAkaAttrW(a) ==
  LET t == a[1] len == a[2] IN
  CASE t \in AkaFixed16 ->
         IF len # 5 THEN Err("aka fixed16 length")
         ELSE Ok([t |-> t, rsv |-> Rd16(a, 3), v |-> Sub(a, 5, 16), pad |-> << >>])
    [] t \in AkaBitLen ->
         LET bits == Rd16(a, 3) n == bits \div 8 IN
         IF bits % 8 # 0 THEN Err("aka bit length not octet aligned")
         ELSE IF 4 + n > 4 * len \/ 4 * len - 4 - n > 3 THEN Err("aka bit length vs attribute length")
         ELSE Ok([t |-> t, rsv |-> bits, v |-> Sub(a, 5, n), pad |-> From(a, 5 + n)])
    [] t = AT_KDF ->
         IF len # 1 THEN Err("aka kdf length") ELSE Ok([t |-> t, rsv |-> 0, v |-> Sub(a, 3, 2), pad |-> << >>])
    [] t = AT_CHECKCODE ->
         Ok([t |-> t, rsv |-> Rd16(a, 3), v |-> From(a, 5), pad |-> << >>])
    [] OTHER -> Ok([t |-> t, rsv |-> 0, v |-> From(a, 3), pad |-> << >>])

RECURSIVE ParseAkaAttrsW(_)
ParseAkaAttrsW(b) ==
  IF Len(b) = 0 THEN Ok(<< >>)
  ELSE IF Len(b) < 2 THEN Err("aka attribute header truncated")
  ELSE LET len == b[2] IN
       IF len = 0 THEN Err("aka attribute length 0")
       ELSE IF 4 * len > Len(b) THEN Err("aka attribute overruns packet")
       ELSE LET one == ParseAkaAttrW(Take(b, 4 * len)) IN
            IF ~one.ok THEN one
            ELSE LET rest == ParseAkaAttrsW(From(b, 4 * len + 1)) IN
                 IF ~rest.ok THEN rest ELSE Ok(<< one.v >> \o rest.v)

-----------------------------------------------------------------------------
(* EAP packets.  W-form: [code, id, m, ...] with                           *)
(*   m = "none"                                                            *)
(*   m in EapSimple : data                                                 *)
(*   m = "expanded" : vid (0..2^24-1), vtype (4 octets), data              *)
(*   m = "aka"      : sub, rsv (0..65535), attrs (wire order, W-form)      *)
(*   m = "other"    : t, data                                              *)

EapBodyW(p) ==
  CASE p.m = "none"     -> << >>
    [] p.m \in EapSimple -> << EapTypeCode(p.m) >> \o p.data
    [] p.m = "expanded" -> << 254 >> \o U24(p.vid) \o p.vtype \o p.data
    [] p.m = "aka"      -> << 50, p.sub >> \o U16(p.rsv) \o Flat([i \in 1..Len(p.attrs) |-> EncAkaAttrW(p.attrs[i])])
    [] OTHER            -> << p.t >> \o p.data

EncEapW(p) == LET body == EapBodyW(p) IN << p.code, p.id >> \o U16(4 + Len(body)) \o body

ParseEapW(b) ==
  IF Len(b) < 4 THEN Err("eap header truncated")
  ELSE IF Rd16(b, 3) # Len(b) THEN Err("eap length field differs from packet size")
  ELSE LET code == b[1] id == b[2] IN
  IF code \in {3, 4} /\ Len(b) # 4 THEN Err("eap success/failure with data")
  ELSE IF code \in {1, 2} /\ Len(b) < 5 THEN Err("eap request/response without type")
  ELSE IF Len(b) = 4 THEN Ok([code |-> code, id |-> id, m |-> "none"])
  ELSE LET t == b[5] IN
  CASE t = 1 -> Ok([code |-> code, id |-> id, m |-> "identity", data |-> From(b, 6)])
    [] t = 2 -> Ok([code |-> code, id |-> id, m |-> "notification", data |-> From(b, 6)])
    [] t = 3 -> Ok([code |-> code, id |-> id, m |-> "nak", data |-> From(b, 6)])
    [] t = 254 -> IF Len(b) < 12 THEN Err("eap expanded truncated")
                  ELSE Ok([code |-> code, id |-> id, m |-> "expanded", vid |-> Rd24(b, 6),
                           vtype |-> Sub(b, 9, 4), data |-> From(b, 13)])
    [] t = 50 -> IF Len(b) < 8 THEN Err("eap aka truncated")
                 ELSE LET as == ParseAkaAttrsW(From(b, 9)) IN
                      IF ~as.ok THEN as
                      ELSE Ok([code |-> code, id |-> id, m |-> "aka", sub |-> b[6],
                               rsv |-> Rd16(b, 7), attrs |-> as.v])
    [] OTHER -> Ok([code |-> code, id |-> id, m |-> "other", t |-> t, data |-> From(b, 6)])

\* ascending-type sort of D-form attributes (types are distinct in the domain)
RECURSIVE InsertAttr(_, _)
InsertAttr(s, a) == IF Len(s) = 0 THEN << a >>
                    ELSE IF a.t < Head(s).t THEN << a >> \o s
                    ELSE << Head(s) >> \o InsertAttr(Tail(s), a)
RECURSIVE SortAttrs(_)
SortAttrs(s) == IF Len(s) = 0 THEN << >> ELSE InsertAttr(SortAttrs(Tail(s)), Head(s))

\* later occurrences of a type replace earlier ones (a map by type), result ascending
RECURSIVE AttrMap(_, _)
AttrMap(s, acc) ==
  IF Len(s) = 0 THEN acc
  ELSE LET a == Head(s)
           acc2 == SelectSeq(acc, LAMBDA x : x.t # a.t) IN
       AttrMap(Tail(s), InsertAttr(acc2, a))

EapStrip(p) ==
  CASE p.m = "none" -> [code |-> p.code, id |-> p.id, m |-> "none"]
    [] p.m \in EapSimple -> [code |-> p.code, id |-> p.id, m |-> p.m, data |-> p.data]
    [] p.m = "expanded" -> [code |-> p.code, id |-> p.id, m |-> p.m, vid |-> p.vid, vtype |-> p.vtype, data |-> p.data]
    [] p.m = "aka" -> [code |-> p.code, id |-> p.id, m |-> p.m, sub |-> p.sub,
                       attrs |-> AttrMap([i \in 1..Len(p.attrs) |-> AkaAttrStrip(p.attrs[i])], << >>)]
    [] OTHER -> [code |-> p.code, id |-> p.id, m |-> "other", t |-> p.t, data |-> p.data]

EapPlain(d) ==
  CASE d.m = "aka" -> [code |-> d.code, id |-> d.id, m |-> "aka", sub |-> d.sub, rsv |-> 0,
                       attrs |-> LET s == SortAttrs(d.attrs) IN [i \in 1..Len(s) |-> AkaAttrPlain(s[i])]]
    [] OTHER -> d

EncEap(d) == EncEapW(EapPlain(d))

EapDistinctTypes(attrs) == \A i, j \in 1..Len(attrs) : i # j => attrs[i].t # attrs[j].t

EapRsvZero(p) ==
  IF p.m = "aka" THEN p.rsv = 0 /\ \A i \in 1..Len(p.attrs) : AkaAttrRsvZero(p.attrs[i]) ELSE TRUE

\* wire-level well-formedness claims of C14 beyond "ParseEapW accepts"
EapWellFormed(b) ==
  LET r == ParseEapW(b) IN
  /\ r.ok
  /\ EapRsvZero(r.v)
  /\ r.v.m = "aka" => EapDistinctTypes(r.v.attrs)

\* value sizes the attribute setter must accept (C14) -- the EAP part of the encodable domain
AkaValueOk(a) ==
  CASE a.t \in AkaFixed16 -> Len(a.v) = 16
    [] a.t = AT_RES -> Len(a.v) \in 4..16
    [] a.t = AT_KDF_INPUT -> Len(a.v) <= 1016
    [] a.t = AT_KDF -> Len(a.v) = 2
    [] a.t = AT_CHECKCODE -> Len(a.v) \in {0, 20, 32}
    [] OTHER -> FALSE

EapEncodable(d) ==
  CASE d.m = "none" -> d.code \in {3, 4}
    [] d.m \in EapSimple -> d.code \in {1, 2} /\ Len(d.data) >= 1
    [] d.m = "expanded" -> d.code \in {1, 2} /\ d.vid < 16777216
    [] d.m = "aka" -> /\ d.code \in {1, 2}
                      /\ EapDistinctTypes(d.attrs)
                      /\ \A i \in 1..Len(d.attrs) : AkaValueOk(d.attrs[i])
                      /\ \A i \in 1..Len(d.attrs) - 1 : d.attrs[i].t < d.attrs[i+1].t
    [] OTHER -> FALSE

\* the octets AT_MAC is computed over (C15): the packet as on the wire with the 16 MAC octets zeroed
RECURSIVE ZeroMacIn(_, _)
ZeroMacIn(b, pos) ==      \* b = whole packet, pos = 1-based index of the next attribute header
  IF pos + 1 > Len(b) THEN b
  ELSE LET t == b[pos] len == b[pos + 1] IN
       IF len = 0 \/ pos + 4 * len - 1 > Len(b) THEN b
       ELSE IF t = AT_MAC /\ len = 5
              THEN ZeroMacIn(Overwrite(b, pos + 4, Zeros(16)), pos + 20)
              ELSE ZeroMacIn(b, pos + 4 * len)
MacInput(b) == ZeroMacIn(b, 9)

-----------------------------------------------------------------------------
(* 3GPP TS 24.502 section 9.3.2 (EAP-5G) and 9.3.1 (Notify payload data)    *)
Vendor3GPP == 10415
EAP5GVType == << 0, 0, 0, 3 >>
Eap5GStart(id)    == [code |-> 1, id |-> id, m |-> "expanded", vid |-> Vendor3GPP, vtype |-> EAP5GVType,
                      data |-> << 1, 0 >>]
Eap5GNas(id, nas) == [code |-> 1, id |-> id, m |-> "expanded", vid |-> Vendor3GPP, vtype |-> EAP5GVType,
                      data |-> << 2, 0 >> \o U16(Len(nas)) \o nas]

N_5G_QOS_INFO == 55501   N_NAS_IP4_ADDRESS == 55502   N_UP_IP4_ADDRESS == 55504   N_NAS_TCP_PORT == 55506
QosInfoData(pdu, qfis, dcsi, dscpi, dscp) ==
  LET tail == << (IF dcsi THEN 2 ELSE 0) + (IF dscpi THEN 1 ELSE 0) >> \o (IF dscpi THEN << dscp >> ELSE << >>)
      n == 3 + Len(qfis) + Len(tail) IN
  << n, pdu, Len(qfis) >> \o qfis \o tail
=============================================================================
