---------------------------- MODULE Gen_Histories ----------------------------
(* C17 (and the history part of C01/C02/C08): behaviours of SKChannel.tla -- sequences of protect, adversary edits,  *)
(* unprotect and Child SA derivations on long-lived SA key objects -- made concrete and replayed on real long-lived *)
(* IKESAKey objects.  The expected result of every operation is what a FRESH object with the same keys gives.       *)
EXTENDS SKLife, Pools
CONSTANTS MaxOps, Stride,     \* Stride > 1: only every Stride-th finished history (by hash) is printed
          PropId              \* the property the run is made for (the histories serve C17 and the history part of C01 C02 C06 C08)
VARIABLES sent, net, macbuf, prfbuf, outcome, fresh, decBeforeMac, cipherOnPlain, ops, done
SC == INSTANCE SKChannel WITH Msgs <- {"m1", "m2"}, ResetBeforeMac <- TRUE, ResetPerPrfBlock <- TRUE, MacFirst <- TRUE, PeerKeys <- TRUE

SuiteSeq == << Suite(128, "md5", "md5"), Suite(192, "md5", "sha1"), Suite(256, "md5", "sha256"),
               Suite(128, "sha1", "sha256"), Suite(192, "sha1", "md5"), Suite(256, "sha1", "sha1"),
               Suite(128, "sha256", "sha1"), Suite(192, "sha256", "sha256"), Suite(256, "sha256", "md5") >>
Code(o) == CASE o.op = "protect" -> 1 + (IF o.r THEN 1 ELSE 0) [] o.op = "adv" -> 3 [] o.op = "unprotect" -> 5 + o.h [] OTHER -> 11
RECURSIVE Hash(_)
Hash(s) == IF Len(s) = 0 THEN Seed ELSE (Hash(Tail(s)) * 7 + Code(Head(s))) % 1009
Su(s) == SuiteSeq[(Hash(s) % 9) + 1]

Concrete(m) == IF m = "m1" THEN Msg(1, << Rep("N") >>) ELSE Msg(2, << Rep("IDi"), Rep("AUTH") >>)
KsOf(o) == IF o = "X" THEN 2 ELSE 1
NonceOf(n) == IF n = 1 THEN FillT("seeded", 32, 7) ELSE FillT("ramp", 64, 9)
ChildEncr(n) == IF n = 1 THEN 256 ELSE 128
ChildInteg(n) == IF n = 1 THEN "sha1" ELSE "sha256"

\* the datagram term for provenance (h, b, i, sk); w(k) = reference to the wire of the k-th sent datagram
DatagramTerm(w(_), il, h, b, i, sk) ==
  IF h = 0 /\ b = 0 /\ i = 0 THEN      \* made-up octets that present an Encrypted payload with consistent lengths (76 octets)
    Cat(<< FillT("seeded", 16, 3), Lit(<< 46, 32, 37, 8, 0, 0, 0, 1, 0, 0, 0, 76, 0, 0, 0, 48 >>), FillT("seeded", 44, 9) >>)
  ELSE IF ~sk THEN OverwriteT(w(b), 16, << 41 >>)
  ELSE IF h = b /\ b = i THEN w(b)
  ELSE IF h = 0 /\ b = i THEN Flip(w(b), 3, 0)
  ELSE IF b = 0 /\ i = 0 THEN DropEnd(w(h), 5)
  ELSE IF b = 0 THEN Flip(w(h), 40, 1)
  ELSE IF i = 0 THEN Flip(w(h), 0 - 1, 0)
  ELSE Cat(<< Slice(w(h), 0, 28), FromT(w(b), 28) >>)

\* walk the history: st = number of harness steps emitted so far, ss = harness step of each sent datagram, sm = its message
RECURSIVE Walk(_, _, _, _, _)
Walk(s, su, st, ss, sm) ==
  IF Len(s) = 0 THEN << >>
  ELSE LET o == Head(s) il == IcvLen(su.integ)
           w(k) == RefT(ss[k], "wire", LibProtectedLen(Concrete(sm[k]), su)) IN
       CASE o.op = "protect" ->
              << ProtectStep(PropId, o.o, o.r, Concrete(o.m), "system"),
                 SaNew("F", su, KeysOf(su, KsOf(o.o))),
                 UnprotectStep(PropId, "F", ~o.r, Ref(st + 1, "wire"), "nil", AcceptExp(Concrete(o.m))) >>
              \o Walk(Tail(s), su, st + 3, Append(ss, st + 1), Append(sm, o.m))
         [] o.op = "adv" -> Walk(Tail(s), su, st, ss, sm)
         [] o.op = "unprotect" ->
              << UnprotectStep(PropId, o.o, o.r, DatagramTerm(w, il, o.h, o.b, o.i, o.sk), IF (o.h + o.b) % 2 = 0 THEN "nil" ELSE "pre",
                               CASE o.exp.v = "accept" -> AcceptExp(Concrete(o.exp.m))
                                 [] o.exp.v = "reject" -> RejectExp
                                 [] OTHER -> PlainExp) >>
              \o Walk(Tail(s), su, st + 1, ss, sm)
         [] OTHER ->
              LET keys == KeysOf(su, KsOf(o.o))
                  el == EncrKeyLen(ChildEncr(o.n)) al == IntegKeyLen(ChildInteg(o.n))
                  pfx == "C" \o ToString(st) \o "_" IN
              << Step("derive_child", PropId, FALSE, [sa |-> o.o, nonce |-> NonceOf(o.n), encr |-> ChildEncr(o.n), integ |-> ChildInteg(o.n)],
                      [panic |-> FALSE, err |-> FALSE] @@ ChildKeyRec(pfx, su.prf, el, al))
                 @@ [defs |-> ChildKeyDefs(pfx, su.prf, keys.sk_d, NonceOf(o.n), el, al)] >>
              \o Walk(Tail(s), su, st + 1, ss, sm)

\* per-step defs are hoisted into the vector's defs
RECURSIVE Defs(_)
Defs(steps) == IF Len(steps) = 0 THEN << >>
               ELSE (IF "defs" \in DOMAIN Head(steps) THEN Head(steps).defs ELSE << >>) \o Defs(Tail(steps))
Strip1(st) == [act |-> st.act, prop |-> st.prop, soft |-> st.soft, args |-> st.args, expect |-> st.expect]

HistoryVector(s) ==
  LET su == Su(s)
      steps == << SaNew("A", su, KeysOf(su, 1)), SaNew("B", su, KeysOf(su, 1)), SaNew("X", su, KeysOf(su, 2)) >>
               \o Walk(s, su, 3, << >>, << >>) IN
  [fam |-> "history", defs |-> Defs(steps), steps |-> [i \in 1..Len(steps) |-> Strip1(steps[i])]]

\* a finished history takes one extra, deterministic step to `done`: in simulation mode TLC evaluates invariants on ALL
\* successors of a state before picking one, so printing is tied to the single successor of a finished history
Init == SC!Init /\ done = FALSE
Next == \/ ~done /\ SC!Next /\ done' = FALSE
        \/ ~done /\ Len(ops) = MaxOps /\ (Stride = 1 \/ Hash(ops) % Stride = Seed % Stride) /\ done' = TRUE /\ UNCHANGED << sent, net, macbuf, prfbuf, outcome, fresh, decBeforeMac, cipherOnPlain, ops >>
Emit == done => PrintT(ToJson(HistoryVector(ops)))
Sound == SC!AsFresh /\ SC!AcceptOnlySent /\ SC!RoundTrip /\ SC!MacBeforeDecrypt
=============================================================================
