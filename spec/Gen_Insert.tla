------------------------------ MODULE Gen_Insert ------------------------------
(* C13 generation: one (or two) unsupported payloads inserted into encodable messages: all 239 unsupported type *)
(* codes x all positions x both critical-flag values x body lengths (DESIGN.md section 6, C13).                *)
EXTENDS CodecLife, Pools
VARIABLES stage, bi, pos, ty, crit, blen, second, adj

Bases == << << >>, << Rep("N") >>, << Rep("SA"), Rep("KE") >>, << Rep("IDi"), Rep("AUTH"), Rep("TSi") >>,
            << Rep("EAP") >>, << Rep("CP"), Rep("D"), Rep("V"), Rep("CERT") >>,
            \* chains that OPEN with a Notify of protocol meaning (error types 14, 17, 24; COOKIE): the rule for unsupported payloads does not
            \* depend on what the message is about
            << Nt(14, 0) >>, << Nt(17, 2), Rep("KE") >>, << Nt(24, 0), Rep("N") >>, << Nt(16390, 16), Rep("SA"), Rep("KE"), Rep("NONCE") >> >>
Base(i) == Msg(IF i % 2 = 0 THEN 1 ELSE 4, Bases[i])
UnsupportedTypes == (1..32) \cup (49..255)
LenPool == IF Thorough THEN {0, 1, 2, 3, 4, 7, 8, 255, 256, 1023, 1024} ELSE {1, 7, 1024}
FullLenTypes == {1, 128, 255}

Init == stage = 0 /\ bi = 0 /\ pos = 0 /\ ty = 0 /\ crit = 0 /\ blen = 0 /\ second = 0 /\ adj = 0
Next ==
  \/ stage = 0 /\ stage' = 1 /\ bi' \in 1..Len(Bases) /\ UNCHANGED << pos, ty, crit, blen, second, adj >>
  \/ stage = 1 /\ stage' = 2 /\ pos' \in 1..(Len(Bases[bi]) + 1) /\ UNCHANGED << bi, ty, crit, blen, second, adj >>
  \/ stage = 2 /\ stage' = 3 /\ UNCHANGED << bi, pos >> /\ crit' \in {0, 1}
     /\ \/ ty' \in UnsupportedTypes /\ blen' = 0 /\ second' = 0 /\ adj' = 0                        \* exhaustive single insertions
        \/ ty' \in {1, 32, 49, 128, 255} /\ blen' \in LenPool /\ second' = 0 /\ adj' = 0
        \/ Thorough /\ bi <= 3 /\ ty' \in FullLenTypes /\ blen' \in 0..1024 /\ second' = 0 /\ crit' = 0 /\ adj' = 0
        \/ ty' \in {2, 200} /\ blen' \in {0, 5} /\ second' \in {1, 31, 50, 254} /\ adj' = 0         \* double insertions, the second in front
        \* two unsupported payloads NEXT TO each other, EVERY type code in either place (the skipped payload's next-payload field is
        \* the only thing that names the type of its neighbour): the second one directly before (adj 1) / directly behind (adj 2)
        \/ (Thorough \/ bi = 3) /\ ty' \in UnsupportedTypes /\ blen' = (ty' % 3) /\ second' \in {7, 200} /\ adj' \in {1, 2}
  \/ stage = 3 /\ UNCHANGED << stage, bi, pos, ty, crit, blen, second, adj >>

SC == (ty + pos + blen) % 2       \* half of the vectors have the critical flag set on every implemented payload
Body == Fill(IF blen % 2 = 0 THEN "seeded" ELSE "ff", blen, Seed + ty)

\* the second insertion (never critical) goes to the front
M2 == IF second = 0 THEN Base(bi) ELSE Base(bi)
Vec ==
  IF second = 0 THEN InsertVector(Base(bi), pos, ty, crit, Body, SC)
  ELSE LET w  == PlainMsg(Norm(Base(bi)))
           p1 == InsertUnk(WithCrit(w, SC).payloads, pos, ty, crit, 0, Body)
           p2 == InsertUnk(p1, CASE adj = 0 -> 1 [] adj = 1 -> pos [] OTHER -> pos + 1, second, 0, 127, << 9, 9, 9 >>)
           b  == EncMsgW([w EXCEPT !.payloads = p2]) IN
       Vector("insert2", << Step("decode", "C13", FALSE, [wire |-> b, caps |-> FALSE],
                                 IF crit = 1 THEN [panic |-> FALSE, capdiff |-> FALSE, err |-> TRUE]
                                             ELSE [panic |-> FALSE, capdiff |-> FALSE, err |-> FALSE, msg |-> Norm(Base(bi))]) >>)
Emit == stage = 3 => PrintT(ToJson(Vec))
Sound == stage = 3 /\ second = 0 => InsertSound(Base(bi), pos, ty, crit, Body, SC)
=============================================================================
