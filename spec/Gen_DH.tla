-------------------------------- MODULE Gen_DH --------------------------------
(* C09: MODP groups 2 and 14.  Exponent classes x peer-value classes x both groups, expected values as ModExp terms  *)
(* over the primes derived from the RFC formula (DHGroups.tla): public value 2^x mod p, shared secret y^x mod p,     *)
(* both left-padded to the modulus length; pairwise agreement through the code; random-number generation: range,   *)
(* distinctness, determinism under a replayed source, errors under a failing source.                                *)
EXTENDS KeyLife, Pools
VARIABLES stage, g, xi, yi

\* big-endian increment / decrement of an octet string (for p-1, p+1); recursion over at most 257 octets
RECURSIVE IncOct(_)
IncOct(s) == IF Len(s) = 0 THEN << 1 >>
             ELSE IF s[Len(s)] < 255 THEN SubSeq(s, 1, Len(s) - 1) \o << s[Len(s)] + 1 >>
             ELSE IncOct(SubSeq(s, 1, Len(s) - 1)) \o << 0 >>
DecLast(s) == SubSeq(s, 1, Len(s) - 1) \o << s[Len(s)] - 1 >>       \* the primes end in 0xff

P(grp) == PrimeOf(grp)
NBits(grp) == IF grp = 2 THEN << 4, 0 >> ELSE << 8, 0 >>             \* the exponent n = 1024 / 2048: 2^n mod p = 2^n - p exposes every digit of p
ExpClass(grp, i) ==
  CASE i = 1 -> Lit(<< 0 >>) [] i = 2 -> Lit(<< 1 >>) [] i = 3 -> Lit(<< 2 >>)
    [] i = 4 -> Lit(DecLast(P(grp))) [] i = 5 -> Lit(P(grp)) [] i = 6 -> Lit(IncOct(P(grp)))
    [] i = 7 -> Lit(<< 1 >> \o Zeros(16))                                     \* 2^128
    [] i = 8 -> Lit(Const(256, 255))                                           \* 2^2048 - 1
    [] i = 9 -> Lit(NBits(grp))
    [] i = 10 -> FillT("seeded", 256, Seed + 1)
    [] i = 11 -> FillT("seeded", 17, Seed + 2)
    [] i = 12 -> [t |-> "findexp", m |-> Lit(P(grp)), g |-> 2, lz |-> 1, from |-> FillT("seeded", 32, Seed + 3)]
    [] i = 13 -> [t |-> "findexp", m |-> Lit(P(grp)), g |-> 2, lz |-> 1, from |-> FillT("ramp", 64, Seed + 4)]
NExp == 13
PeerClass(grp, j) ==
  CASE j = 1 -> Lit(<< 0 >>) [] j = 2 -> Lit(<< 1 >>) [] j = 3 -> Lit(DecLast(P(grp))) [] j = 4 -> Lit(P(grp)) [] j = 5 -> Lit(IncOct(P(grp)))
    [] j = 6 -> Lit(Const(257, 255))                                           \* 2^2056 - 1
    [] j = 7 -> Lit(<< 2 >>) [] j = 8 -> FillT("seeded", DhLen(grp), Seed + 9)
    [] j = 9 -> Cat(<< Lit(<< 0, 0, 0 >>), FillT("seeded", DhLen(grp) - 3, Seed + 10) >>)     \* a peer value with leading zero octets
NPeer == 9

PairVector(grp, i, j) ==
  LET x == ExpClass(grp, i) y == PeerClass(grp, j) yx == ExpClass(grp, ((i + j) % NExp) + 1) IN
  VectorD("dh", << [n |-> "x", t |-> x], [n |-> "y", t |-> yx] >>,
    << Step("dh_pub", "C09", FALSE, [grp |-> grp, x |-> Var("x", 0)], [panic |-> FALSE, pub |-> PubT(grp, Var("x", 0)), again |-> TRUE, argsame |-> TRUE]),
       Step("dh_shared", "C09", FALSE, [grp |-> grp, x |-> Var("x", 0), peer |-> y], [panic |-> FALSE, shared |-> SharedT(grp, Var("x", 0), y), again |-> TRUE, argsame |-> TRUE]),
       \* two parties with exponents x and y: each computes the shared secret from the other's public value
       Step("dh_pub", "C09", FALSE, [grp |-> grp, x |-> Var("y", 0)], [panic |-> FALSE, pub |-> PubT(grp, Var("y", 0))]),
       Step("dh_shared", "C09", FALSE, [grp |-> grp, x |-> Var("x", 0), peer |-> Ref(3, "pub")],
            [panic |-> FALSE, shared |-> SharedT(grp, Var("y", 0), PubT(grp, Var("x", 0)))]),
       Step("dh_shared", "C09", FALSE, [grp |-> grp, x |-> Var("y", 0), peer |-> Ref(1, "pub")],
            [panic |-> FALSE, shared |-> Ref(4, "shared")]) >>)

\* peer values of more octets than the modulus, through CalculateDiffieHellmanMaterials: with the same random stream (hence the same
\* exponent) the peer values y and 256 p + y (one octet longer, same residue) give the same public value and the same shared secret,
\* and so do y and p + y; a value with a leading zero octet is the same number
LongPeerVector(grp, k) ==
  LET y == << 3 + k >> rnd == [mode |-> "det", seed |-> Seed + 60 + k]
      st(peer, same) == Step("dh_calc", "C09", FALSE, [grp |-> grp, peer |-> Lit(peer), rand |-> rnd],
                             IF same THEN [panic |-> FALSE, err |-> FALSE, pub |-> Ref(1, "pub"), shared |-> Ref(1, "shared")] ELSE [panic |-> FALSE, err |-> FALSE]) IN
  VectorD("dh_longpeer", << >>,
    << st(y, FALSE),
       st(P(grp) \o y, TRUE),                                  \* 256 p + y
       st(<< 0 >> \o y, TRUE),
       st(<< 0 >> \o P(grp) \o y, TRUE),
       st([i \in 1..Len(P(grp)) |-> IF i = Len(P(grp)) THEN P(grp)[i] - 255 + y[1] ELSE P(grp)[i]] \o << >>, FALSE),   \* p - 255 + y: another residue, no expectation beyond no error
       st(<< 1 >> \o Zeros(Len(P(grp)) - 1) \o << 0 >>, FALSE) >>)  \* 2^(8n): only the excess octet is non-zero

\* peer public values with ZERO OCTETS AT THEIR EDGES, as one honest peer in 256 sends them: the peer's exponent X is searched for
\* (findexp: 2^X mod p ends in / begins with 0x00), the library computes its own pair from the replayed source and the shared secret
\* from the peer's value; expected = (own public value)^X mod p, left padded -- through CalculateDiffieHellmanMaterials and GetSharedKey
EdgeExp(grp, k) == [t |-> "findexp", m |-> Lit(P(grp)), g |-> 2, lz |-> IF k % 2 = 0 THEN 0 ELSE 1, tz |-> IF k % 2 = 0 THEN 1 ELSE 0,
                    from |-> FillT("seeded", 24, Seed + 80 + k)]
PeerEdgeVector(grp, k) ==
  LET rnd == [mode |-> "det", seed |-> Seed + 90 + k] IN
  VectorD("dh_peeredge", << [n |-> "X", t |-> EdgeExp(grp, k)], [n |-> "x", t |-> ExpClass(grp, 10)] >>,
    << Step("dh_pub", "C09", FALSE, [grp |-> grp, x |-> Var("X", 0)], [panic |-> FALSE, pub |-> PubT(grp, Var("X", 0))]),
       Step("dh_calc", "C09", FALSE, [grp |-> grp, peer |-> Ref(1, "pub"), rand |-> rnd],
            [panic |-> FALSE, err |-> FALSE, shared |-> SharedT(grp, Var("X", 0), RefT(2, "pub", DhLen(grp)))]),
       Step("dh_shared", "C09", FALSE, [grp |-> grp, x |-> Var("x", 0), peer |-> Ref(1, "pub")],
            [panic |-> FALSE, shared |-> SharedT(grp, Var("X", 0), PubT(grp, Var("x", 0)))]) >>)

\* ONE key object through several key exchanges (the first answer was INVALID_KE_PAYLOAD or a COOKIE request: same object, the other
\* group or the same group again): every exchange draws a NEW exponent from the source -- 256 octets are taken each time, the public
\* value differs from the earlier ones, the shared secret is the peer's exponent applied to THIS call's public value
RetryVector(k) ==
  LET ga == IF k % 2 = 0 THEN 2 ELSE 14
      gb == IF k % 4 < 2 THEN 14 ELSE 2
      rnd(q) == [mode |-> "det", seed |-> Seed + 95 + 7 * k + q]
      X == ExpClass(2, 10)
      st(q, gg) == Step("dh_calc", "C09", FALSE, [obj |-> "K", grp |-> gg, peer |-> PubT(gg, X), rand |-> rnd(q)],
                       [panic |-> FALSE, err |-> FALSE, ndelivered |-> [oneof |-> << 256, 512, 768, 1024 >>], repeat |-> FALSE,
                        shared |-> SharedT(gg, X, RefT(q, "pub", DhLen(gg)))]) IN
  VectorD("dh_retry", << >>, << st(1, ga), st(2, gb), st(3, ga), st(4, gb) >>)

\* the group as it is reached through a negotiated proposal (transform type 4, id 2 / 14 -> NewIKESAKey): the responder's public value
\* has the group's length and its keys are those of the shared secret computed with the group's prime
PropGroupVector(grp, k) ==
  LET su == Suite(<< 128, 192, 256 >>[(k % 3) + 1], "sha1", << "md5", "sha1", "sha256" >>[(k % 3) + 1])
      nonce == FillT("seeded", 40, Seed + 70 + k)
      pubQ == RefT(1, "pub", DhLen(grp)) IN
  VectorD("dh_proposal", IkeKeyDefsP("Q", su, nonce, SharedT(grp, ExpClass(grp, 6), pubQ), Lit(D(8, 1)), Lit(D(8, 2))),
    << [NewIkeSaStepP("Q", "C09", "Q", su, grp, PubT(grp, ExpClass(grp, 6)), nonce, D(8, 1), D(8, 2), [mode |-> "det", seed |-> Seed + k])
          EXCEPT !.expect = @ @@ [publen |-> DhLen(grp)]],
       Step("dh_shared", "C09", FALSE, [grp |-> grp, x |-> ExpClass(grp, 6), peer |-> Ref(1, "pub")], [panic |-> FALSE, shared |-> SharedT(grp, ExpClass(grp, 6), pubQ)]) >>)

RandVector(k) ==
  VectorD("rand", << >>,
    IF k = 0 THEN
      << Step("gen_random", "C09", FALSE, [n |-> IF Thorough THEN 100000 ELSE 2000, rand |-> [mode |-> "system"]],
              [panic |-> FALSE, err |-> FALSE, inrange |-> TRUE, distinct |-> IF Thorough THEN 100000 ELSE 2000]) >>
    ELSE IF k = 1 THEN      \* replaying the octets the source delivered reproduces the number; other octets give another number
      << Step("gen_random", "C09", FALSE, [n |-> 1, rand |-> [mode |-> "det", seed |-> Seed]], [panic |-> FALSE, err |-> FALSE, inrange |-> TRUE]),
         Step("gen_random", "C09", FALSE, [n |-> 1, rand |-> [mode |-> "replay", stream |-> Ref(1, "delivered")]],
              [panic |-> FALSE, err |-> FALSE, num |-> Ref(1, "num")]),
         Step("gen_random", "C09", FALSE, [n |-> 1, rand |-> [mode |-> "det", seed |-> Seed]], [panic |-> FALSE, err |-> FALSE, num |-> Ref(1, "num")]),
         \* the same octets delivered in short reads (as a real source may): the same number
         Step("gen_random", "C09", FALSE, [n |-> 1, rand |-> [mode |-> "det", seed |-> Seed, chunk |-> 64]], [panic |-> FALSE, err |-> FALSE, num |-> Ref(1, "num")]),
         Step("gen_random", "C09", FALSE, [n |-> 1, rand |-> [mode |-> "det", seed |-> Seed, chunk |-> 1]], [panic |-> FALSE, err |-> FALSE, num |-> Ref(1, "num")]),
         Step("gen_random", "C09", FALSE, [n |-> 1, rand |-> [mode |-> "replay", stream |-> Ref(1, "delivered"), chunk |-> 100]],
              [panic |-> FALSE, err |-> FALSE, num |-> Ref(1, "num")]),
         \* short reads and then a failure: the failure is delivered before a whole number is, so no number may come back
         Step("gen_random", "C09", FALSE, [n |-> 1, rand |-> [mode |-> "fail", seed |-> Seed, chunk |-> 100, failat |-> 2]],
              [panic |-> FALSE, err |-> TRUE, hasnum |-> FALSE]),
         Step("gen_random", "C09", FALSE, [n |-> 2, rand |-> [mode |-> "det", seed |-> Seed + 1]], [panic |-> FALSE, err |-> FALSE, distinct |-> 2, inrange |-> TRUE]) >>
    ELSE IF k = 2 THEN      \* a source that delivers too-small numbers first: the generator must not return them
      << Step("gen_random", "C09", FALSE, [n |-> 1, rand |-> [mode |-> "replay", stream |-> Cat(<< FillT("zero", 256, 0), FillT("ff", 256, 0), Cat(<< FillT("zero", 239, 0), FillT("ff", 17, 0) >>), FillT("seeded", 256, 5) >>)]],
              [panic |-> FALSE, err |-> FALSE, inrange |-> TRUE]) >>
    ELSE IF k >= 12 /\ k <= 19 THEN   \* k - 11 unusable draws in a row (all zero), then usable octets: still a number in range, however long it takes
      << Step("gen_random", "C09", FALSE, [n |-> 1, rand |-> [mode |-> "replay", stream |-> Cat(<< FillT("zero", 256 * (k - 11), 0), FillT("seeded", 1024, k) >>)]],
              [panic |-> FALSE, err |-> FALSE, inrange |-> TRUE]) >>
    ELSE IF k >= 28 THEN    \* a first draw just below the lower bound 2^128 (2^128 - 1, 2^64, 2^64 - 1, 2^127): not used, the next draw is
      LET low == CASE k = 28 -> Cat(<< FillT("zero", 240, 0), FillT("ff", 16, 0) >>)
                   [] k = 29 -> Cat(<< FillT("zero", 247, 0), Lit(<< 1 >>), FillT("zero", 8, 0) >>)
                   [] k = 30 -> Cat(<< FillT("zero", 248, 0), FillT("ff", 8, 0) >>)
                   [] OTHER -> Cat(<< FillT("zero", 240, 0), Lit(<< 128 >>), FillT("zero", 15, 0) >>) IN
      << Step("gen_random", "C09", FALSE, [n |-> 1, rand |-> [mode |-> "replay", stream |-> Cat(<< low, FillT("seeded", 1024, k) >>)]],
              [panic |-> FALSE, err |-> FALSE, inrange |-> TRUE]) >>
    ELSE IF k >= 20 THEN    \* k - 19 unusable draws in a row, then the source fails: an error, never one of the unusable numbers
      << Step("gen_random", "C09", FALSE, [n |-> 1, rand |-> [mode |-> "replay", stream |-> FillT("zero", 256 * (k - 19), 0), failat |-> k - 19]],
              [panic |-> FALSE, err |-> TRUE, hasnum |-> FALSE, faultok |-> TRUE]) >>
    ELSE                    \* failing source at read k - 3
      << Step("gen_random", "C09", FALSE, [n |-> 3, rand |-> [mode |-> "fail", seed |-> k, failat |-> k - 3]],
              IF k = 3 THEN [panic |-> FALSE, err |-> TRUE, hasnum |-> FALSE, faultok |-> TRUE] ELSE [panic |-> FALSE, faultok |-> TRUE]) >>)

Init == stage = 0 /\ g = 0 /\ xi = 0 /\ yi = 0
Next == \/ stage = 0 /\ stage' = 1 /\ g' \in {2, 14} /\ xi' \in 1..NExp /\ yi' = 0
        \/ stage = 0 /\ stage' = 2 /\ g' = 0 /\ xi' \in 0..31 /\ yi' = 0
        \/ stage = 0 /\ stage' = 2 /\ g' \in {2, 14} /\ xi' \in 100..103 /\ yi' = 0
        \/ stage = 0 /\ stage' = 2 /\ g' \in {2, 14} /\ xi' \in 200..202 /\ yi' = 0
        \/ stage = 0 /\ stage' = 2 /\ g' \in {2, 14} /\ xi' \in 300..303 /\ yi' = 0
        \/ stage = 0 /\ stage' = 2 /\ g' = 2 /\ xi' \in 400..403 /\ yi' = 0
        \/ stage = 1 /\ stage' = 2 /\ yi' \in 1..NPeer /\ UNCHANGED << g, xi >>
        \/ stage = 2 /\ UNCHANGED << stage, g, xi, yi >>
Emit == stage = 2 => PrintT(ToJson(IF g = 0 THEN RandVector(xi) ELSE IF xi >= 400 THEN RetryVector(xi - 400) ELSE IF xi >= 300 THEN PeerEdgeVector(g, xi - 300) ELSE IF xi >= 200 THEN PropGroupVector(g, xi - 200) ELSE IF xi >= 100 THEN LongPeerVector(g, xi - 100) ELSE PairVector(g, xi, yi)))
Sound == TRUE
=============================================================================
