------------------------------- MODULE Octets -------------------------------
(***************************************************************************)
(* Octet strings as TLA+ sequences of 0..255 and the big-endian readers    *)
(* and writers every wire-format module uses.  TLC integers are 32 bit:    *)
(* 32/64-bit wire fields are kept as 4/8-tuples of octets, never as ints.  *)
(* Every fallible operator of the specification returns a tagged record    *)
(* Ok(v) / Err(why) (see DESIGN.md section 3).                             *)
(***************************************************************************)
EXTENDS Integers, Sequences, FiniteSets, TLC

Octet == 0..255

\* helpers for the non-blocking trace judges (DESIGN.md 4.3)
Has(r, k) == k \in DOMAIN r
B(l0, props, why) == << [l |-> l0, props |-> props, why |-> why] >>
Crashed(o) == (Has(o, "panic") /\ o.panic) \/ (Has(o, "hang") /\ o.hang)

Ok(v)    == [ok |-> TRUE,  v |-> v]
Err(why) == [ok |-> FALSE, why |-> why]

U8(n)  == << n % 256 >>
U16(n) == << (n \div 256) % 256, n % 256 >>
U24(n) == << (n \div 65536) % 256, (n \div 256) % 256, n % 256 >>
U32(n) == << (n \div 16777216) % 256, (n \div 65536) % 256, (n \div 256) % 256, n % 256 >>  \* 0 <= n < 2^31

Rd16(b, i) == b[i] * 256 + b[i+1]                       \* 1-based index of the first octet
Rd24(b, i) == b[i] * 65536 + b[i+1] * 256 + b[i+2]

Sub(b, i, n) == SubSeq(b, i, i + n - 1)                 \* n octets starting at 1-based i
From(b, i)   == SubSeq(b, i, Len(b))                    \* the rest, starting at i
Take(b, n)   == SubSeq(b, 1, n)

Zeros(n)     == [i \in 1..n |-> 0]
Const(n, o)  == [i \in 1..n |-> o]
Ramp(n, s)   == [i \in 1..n |-> (s + i - 1) % 256]
\* seeded content pattern: cheap, deterministic, no two adjacent octets equal for most seeds
Seeded(n, s) == [i \in 1..n |-> (s * 31 + i * 7 + (i \div 3) * 13) % 256]
Fill(pat, n, s) == CASE pat = "zero" -> Zeros(n)
                     [] pat = "ff"   -> Const(n, 255)
                     [] pat = "ramp" -> Ramp(n, s)
                     [] OTHER        -> Seeded(n, s)

IsOctets(s) == \A i \in 1..Len(s) : s[i] \in Octet
AllZero(s)  == \A i \in 1..Len(s) : s[i] = 0

TopBit(o) == o \div 128
Low7(o)   == o % 128

\* concatenation of a sequence of octet strings (recursion per element, never per octet)
RECURSIVE Flat(_)
Flat(ss) == IF Len(ss) = 0 THEN << >> ELSE Head(ss) \o Flat(Tail(ss))

\* overwrite n = Len(v) octets of b at 1-based position i
Overwrite(b, i, v) == [j \in 1..Len(b) |-> IF j >= i /\ j < i + Len(v) THEN v[j - i + 1] ELSE b[j]]
FlipBit(b, i, k)   == [j \in 1..Len(b) |->
                         IF j = i
                           THEN (IF (b[j] \div (2^k)) % 2 = 1 THEN b[j] - 2^k ELSE b[j] + 2^k)
                           ELSE b[j]]

IsPrefixOf(p, s) == Len(p) <= Len(s) /\ Take(s, Len(p)) = p

\* some sequence enumerating a finite set (any order)
RECURSIVE SetToSeqAny(_)
SetToSeqAny(S) == IF S = {} THEN << >> ELSE LET x == CHOOSE y \in S : TRUE IN << x >> \o SetToSeqAny(S \ {x})

Max(a, b) == IF a > b THEN a ELSE b
Min(a, b) == IF a < b THEN a ELSE b

\* ascending sequence of a finite set of integers
RECURSIVE SeqOfSet(_)
SeqOfSet(S) == IF S = {} THEN << >>
               ELSE LET m == CHOOSE x \in S : \A y \in S : x <= y IN << m >> \o SeqOfSet(S \ {m})
=============================================================================
