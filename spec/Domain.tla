------------------------------- MODULE Domain -------------------------------
(***************************************************************************)
(* The "encodable domain" of properties C01/C03/C05, transcribed clause by *)
(* clause from the property text (not from the code), equality of D-form   *)
(* messages, and the canonical-datagram predicate of C12.                  *)
(***************************************************************************)
EXTENDS IKEv2Wire

\* ---- stable sort of the transforms of a proposal by transform type: the library's value keeps five
\* per-type containers, so only the order within a type is observable
OfType(trs, tt) == SelectSeq(trs, LAMBDA t : t.tt = tt)
NormTr(trs) == OfType(trs, 1) \o OfType(trs, 2) \o OfType(trs, 3) \o OfType(trs, 4) \o OfType(trs, 5)
NormProp(p) == [p EXCEPT !.tr = NormTr(p.tr)]
NormPayload(p) == IF p.k = "SA" THEN [p EXCEPT !.props = [i \in 1..Len(p.props) |-> NormProp(p.props[i])]] ELSE p
NormChain(ps) == [i \in 1..Len(ps) |-> NormPayload(ps[i])]
Norm(m) == [m EXCEPT !.payloads = NormChain(m.payloads)]
Eq(m1, m2) == Norm(m1) = Norm(m2)
EqChain(a, b) == NormChain(a) = NormChain(b)

\* ---- clause by clause
TransEncodable(t) ==
  /\ t.tt \in 1..5 /\ t.c = t.tt /\ t.tid \in 0..65535
  /\ CASE t.attr = "none" -> TRUE
       [] t.attr = "tv"  -> t.at < 32768 /\ t.av \in 0..65535
       [] t.attr = "tlv" -> t.at < 32768 /\ Len(t.avl) >= 1 /\ Len(t.avl) <= 65535
PropEncodable(p) == /\ Len(p.tr) >= 1 /\ Len(p.tr) <= 255 /\ Len(p.spi) <= 255
                    /\ \A i \in 1..Len(p.tr) : TransEncodable(p.tr[i])
SelEncodable(s) == \/ s.tst = 7 /\ Len(s.sa) = 4 /\ Len(s.ea) = 4
                   \/ s.tst = 8 /\ Len(s.sa) = 16 /\ Len(s.ea) = 16

BodyLen(p) == Len(EncBodyW(PayloadPlain(p)))

PKindNames == {"SA", "KE", "IDi", "IDr", "CERT", "CERTREQ", "AUTH", "NONCE", "N", "D", "V", "TSi", "TSr", "CP", "EAP"}
PayloadEncodable(p) ==
  /\ p.k \in PKindNames
  /\ CASE p.k = "SA" -> \A i \in 1..Len(p.props) : PropEncodable(p.props[i])
       [] p.k \in {"KE", "IDi", "IDr", "CERT", "CERTREQ", "AUTH"} -> Len(p.data) >= 1
       [] p.k \in {"NONCE", "V"} -> TRUE
       [] p.k = "N" -> Len(p.spi) <= 255
       [] p.k = "D" -> \/ p.spisz = 0 /\ p.num = 0 /\ Len(p.spis) = 0
                       \/ p.spisz = 4 /\ p.num = Len(p.spis) /\ \A i \in 1..Len(p.spis) : Len(p.spis[i]) = 4
       [] p.k \in {"TSi", "TSr"} -> Len(p.sel) \in 1..255 /\ \A i \in 1..Len(p.sel) : SelEncodable(p.sel[i])
       [] p.k = "CP" -> Len(p.attrs) >= 1 /\ \A i \in 1..Len(p.attrs) : p.attrs[i].t < 32768 /\ Len(p.attrs[i].v) <= 65535
       [] p.k = "EAP" -> EapEncodable(p.eap)
  /\ 4 + BodyLen(p) <= 65535

HeaderEncodable(m) == /\ Len(m.ispi) = 8 /\ Len(m.rspi) = 8 /\ Len(m.mid) = 4
                      /\ m.maj \in 0..15 /\ m.min \in 0..15 /\ m.xt \in Octet /\ m.flags \in Octet
ChainEncodable(ps) == \A i \in 1..Len(ps) : PayloadEncodable(ps[i])
Encodable(m) == HeaderEncodable(m) /\ ChainEncodable(m.payloads)

\* ---- C12: canonical datagrams (zero reserved bits, no unsupported payloads, transforms grouped in type
\* order, at most one attribute per transform): b = EncMsg(m) for an encodable m
Canonical(b) ==
  LET r == ParseW(b) IN
  /\ r.ok /\ ~HasUnk(r.v.payloads) /\ ChainRepresentable(r.v.payloads) /\ ChainRsvZero(r.v.payloads)
  /\ LET d == StripMsg(r.v) IN Encodable(d) /\ Norm(d) = d /\ EncMsg(d) = b

\* what the reference says about a datagram handed to a decoder
\*   "value"    : well-formed, representable, encodable  => the decoder must return exactly .v (up to Eq)
\*   "critical" : an unsupported payload with the critical flag => the decoder must return an error
\*   "free"     : anything else: value or error, but never a crash
Classify(b) ==
  LET r == ParseW(b) IN
  IF ~r.ok THEN [class |-> IF r.why = "critical" THEN "critical" ELSE "free", why |-> r.why]
  ELSE IF ~ChainRepresentable(r.v.payloads) THEN [class |-> "free", why |-> "not representable"]
  ELSE LET d == StripMsg(r.v) IN
       IF Encodable(d) THEN [class |-> "value", v |-> Norm(d)] ELSE [class |-> "free", why |-> "outside the encodable domain"]
=============================================================================
