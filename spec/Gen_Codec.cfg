INIT Init
NEXT Next
CONSTANTS
  Seed = 1
  Thorough = FALSE
INVARIANTS Sound Emit
CHECK_DEADLOCK FALSE
