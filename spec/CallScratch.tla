----------------------------- MODULE CallScratch -----------------------------
(***************************************************************************)
(* Calls are functions of their arguments even when the library keeps      *)
(* scratch objects between calls.                                          *)
(*                                                                         *)
(* Encoders and decoders may work in storage that outlives the call: a     *)
(* pooled buffer, a pooled reader, a pooled payload object, a per-object   *)
(* work area.  Every property that says "the encoding of m", "decoding b   *)
(* gives ..." is a statement about the arguments of THAT call; nothing an  *)
(* earlier call -- in particular an earlier REFUSED call, which returns    *)
(* early -- left in the scratch object may show.                           *)
(*                                                                         *)
(* Abstractly: a call takes the scratch object, which holds whatever the   *)
(* last user left in it, works on its argument and either succeeds or is   *)
(* refused part-way.  Two mechanisms keep a call pure, each sufficient:    *)
(* CleanOnEntry (the scratch object is emptied when taken) and             *)
(* CleanOnEveryExit (it is emptied on every return, the error returns      *)
(* included).  A successful call reports its argument and what it saw in   *)
(* the scratch object; Pure says it saw nothing.                           *)
(*                                                                         *)
(* The behaviours TLC finds with both mechanisms off -- a refused call     *)
(* followed by an accepted one -- are the shape of CodecLife!FailOkVector, *)
(* Gen_Eap!RejectAcceptVector, the refused / accepted datagrams of the SK  *)
(* sequences and of Gen_Histories; the replayer runs them on the real      *)
(* code, once more in a process with a single processor (one sync.Pool     *)
(* slot), see bin/check single_p_pass.                                     *)
(***************************************************************************)
EXTENDS Naturals, Sequences, FiniteSets

CONSTANTS NVals, MaxOps,
          CleanOnEntry,       \* mechanism: scratch emptied when a call takes it
          CleanOnEveryExit    \* mechanism: scratch emptied on every return, error returns included
VARIABLES scratch,            \* what the last call left in the scratch object
          ops                 \* << [v, ok, saw] >>
vars == << scratch, ops >>

Init == scratch = {} /\ ops = << >>
Call(v, ok) ==
  LET start == IF CleanOnEntry THEN {} ELSE scratch IN
  /\ Len(ops) < MaxOps
  /\ ops' = Append(ops, [v |-> v, ok |-> ok, saw |-> start])
  \* a successful call has always tidied up; a refused one returns early
  /\ scratch' = IF ok \/ CleanOnEveryExit THEN {} ELSE start \cup {v}
Next == \E v \in 1..NVals, ok \in BOOLEAN : Call(v, ok)
Spec == Init /\ [][Next]_vars

\* every accepted call worked on its own argument only
Pure == \A i \in 1..Len(ops) : ops[i].ok => ops[i].saw = {}
=============================================================================
