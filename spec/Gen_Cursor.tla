------------------------------ MODULE Gen_Cursor ------------------------------
(* C04 generation: templates x sites x field values x remaining-length windows (DESIGN.md section 6, C04). *)
EXTENDS DecoderCursor, Pools
CONSTANT Window            \* deltas -Window..Window around every boundary
VARIABLES stage, t, s, v, d, mode, s2, v2

TmplPayloads ==
  << << Rep("SA") >>, << Rep("N") >>, << Rep("D") >>, << Rep("TSi") >>, << Rep("TSr") >>, << Rep("CP") >>, << Rep("EAP") >>,
     << Rep("KE") >>, << Rep("IDi") >>, << Rep("CERT") >>, << Rep("AUTH") >>, << Rep("NONCE") >>,
     << [k |-> "SA", props |-> << Prop(1, 3, 4, TC) >>] >>,
     << [k |-> "EAP", eap |-> [code |-> 2, id |-> 8, m |-> "expanded", vid |-> 10415, vtype |-> << 0, 0, 0, 3 >>, data |-> D(6, 73)]] >>,
     << [k |-> "EAP", eap |-> [code |-> 1, id |-> 8, m |-> "identity", data |-> D(3, 74)]] >>,
     << [k |-> "EAP", eap |-> [code |-> 3, id |-> 8, m |-> "none"]] >>,
     << [k |-> "EAP", eap |-> Aka(1, 2, 1, << AV(AT_RAND, 16), AV(AT_RES, 6), AV(AT_KDF_INPUT, 9), AV(AT_KDF, 2), AV(AT_CHECKCODE, 20) >>)] >>,
     << Rep("SA"), Rep("KE"), Rep("NONCE") >>,
     << Rep("V"), Rep("IDr"), Rep("CERTREQ") >>,
     << >> >>
Unk(ty, body) == [k |-> "UNK", t |-> ty, crit |-> 0, rsv |-> 0, body |-> body]
WD(sz, n, sd) == [k |-> "D", crit |-> 0, rsv |-> 0, proto |-> 3, spisz |-> sz, num |-> n, spis |-> [i \in 1..n |-> D(sz, sd + i)]]
WTemplates == << << Unk(200, << 1, 2, 3 >>), Unk(201, << >>), PayloadPlain(Rep("N")) >>,
                 << PayloadPlain(Rep("NONCE")), Unk(1, D(5, 9)), Unk(32, << 7 >>) >>,
                 << Unk(255, << >>) >>,
                 \* Delete payloads that are consistent in themselves (body = count x SPI size) for SPI sizes OTHER than 4 -- the size octet and the
                 \* count changed TOGETHER: whatever the decoder makes of them, what it accepts stays stable under decode / encode
                 << WD(8, 1, 1) >>, << WD(8, 2, 2) >>, << WD(5, 1, 3) >>, << WD(16, 3, 4) >>, << WD(3, 4, 5) >>, << WD(1, 4, 6) >>, << WD(255, 1, 7) >>,
                 << PayloadPlain(Rep("N")), WD(8, 2, 8), PayloadPlain(Rep("V")) >>, << WD(12, 1, 9), WD(4, 2, 10) >> >>
NT == Len(TmplPayloads) + Len(WTemplates)
Tmpl(i) == IF i <= Len(TmplPayloads) THEN PlainMsg(Msg(1, TmplPayloads[i]))
           ELSE [PlainMsg(Msg(1, << >>)) EXCEPT !.payloads = WTemplates[i - Len(TmplPayloads)]]

Deltas == (0 - Window)..Window
Quick8 == {0, 1, 2, 3, 4, 5, 7, 8, 9, 127, 128, 129, 243, 244, 245, 246, 247, 248, 249, 250, 251, 252, 253, 254, 255}

Init == stage = 0 /\ t = 0 /\ s = << >> /\ v = 0 /\ d = 0 /\ mode = "put" /\ s2 = << >> /\ v2 = 0
Next ==
  \/ stage = 0 /\ stage' = 1 /\ t' \in 1..NT /\ UNCHANGED << s, v, d, mode, s2, v2 >>
  \/ stage = 1 /\ stage' = 2 /\ s' \in MsgSites(Tmpl(t)) /\ UNCHANGED << t, v, d, mode, s2, v2 >>
  \/ stage = 2 /\ stage' = 3 /\ UNCHANGED << t, s >> /\ mode' = "pair"           \* s: a length field; s2: any field inside the extent it measures
     /\ s.unit > 0 /\ s.w = 2 /\ d' = 0
     /\ LET b == EncMsgW(Tmpl(t)) IN
        /\ s2' \in { x \in MsgSites(Tmpl(t)) : x # s /\ x.off > s.off /\ x.off < EndOf(b, s) }
        /\ v' \in { y \in {4, 7, 8, 9, 10, 11, 12, 13, CurOf(b, s) - 1, CurOf(b, s) + 1} : y >= 0 }
        /\ v2' \in (IF s2'.w = 1 THEN {0, 255, (CurOf(b, s2') + 1) % 256}
                     ELSE {0, 65533, 65534, 65535, (CurOf(b, s2') + 1) % 65536, 32768 + (CurOf(b, s2') % 32768)})
  \/ stage = 2 /\ stage' = 3 /\ UNCHANGED << t, s, s2, v2 >> /\ mode' = "reframe" /\ v' = 0
     /\ d' \in { k \in (0 - 2 * Window - 4)..(2 * Window + 4) : k # 0 /\ Reframable(EncMsgW(Tmpl(t)), s, k) }
  \/ stage = 2 /\ stage' = 3 /\ UNCHANGED << t, s, s2, v2 >> /\ mode' = "put"
     /\ LET b == EncMsgW(Tmpl(t)) IN
        \/ v' \in SiteValues(b, s) /\ d' = 0
        \/ v' \in (IF s.w = 1 THEN { x \in Quick8 \cup {b[s.off + 1] - 1, b[s.off + 1], b[s.off + 1] + 1} : x \in 0..255 } ELSE SiteValues(b, s))
           /\ d' \in Deltas \ {0}
  \/ stage = 3 /\ UNCHANGED << stage, t, s, v, d, mode, s2, v2 >>

Mutant == LET b0 == EncMsgW(Tmpl(t)) IN
          IF mode = "reframe" THEN Reframe(b0, MsgSites(Tmpl(t)), s, d, 255)
          ELSE IF mode = "pair" THEN FixHdrLen(PutSite(PutSite(b0, s, v), s2, v2))
          ELSE LET b1 == Resize(PutSite(b0, s, v), d, 0) IN
               IF s.nm = "hdr.len" THEN b1 ELSE FixHdrLen(b1)

BodyStep(b) ==
  LET ps == Tmpl(t).payloads IN
  IF Len(ps) = 1 /\ Len(b) >= 32 /\ ps[1].k # "UNK"
    THEN LET k == ps[1].k body == From(b, 33) IN
         << Step("decode_body", "C04", FALSE, [kind |-> k, wire |-> body, caps |-> TRUE], [panic |-> FALSE, capdiff |-> FALSE]) >>
         \o (IF k = "EAP" THEN << Step("eap_decode", "C04", FALSE, [wire |-> body, caps |-> TRUE], ExpectEapDecode(body)) >> ELSE << >>)
    ELSE << >>

Emit == stage = 3 => LET b == Mutant cv == CursorVector(b, s.nm) IN
                     PrintT(ToJson([cv EXCEPT !.steps = @ \o BodyStep(b)]))
\* the untouched template is canonical and classified as a value: the templates themselves are sound
\* (the Delete templates with other SPI sizes are outside the domain: no claim about how they are classified)
Sound == stage = 1 => LET b == EncMsgW(Tmpl(t)) IN (t <= Len(TmplPayloads) => Canonical(b)) /\ (t <= Len(TmplPayloads) + 3 => Classify(b).class = "value")
=============================================================================
