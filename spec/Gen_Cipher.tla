------------------------------ MODULE Gen_Cipher ------------------------------
(* C10 generation: key sizes (right and wrong), plaintext lengths 0..64 and boundary sizes, decrypt exhaustively over lengths 0..96 x all 256 *)
(* recovered pad-length octets, call histories on one / two objects with random-source failure points.                                       *)
EXTENDS CipherLife, Pools
CONSTANT PropId      \* the property the run is made for (C10; C04 runs the same vectors for "never crashes")
VARIABLES stage, kind, a, b
Bits3 == {128, 192, 256}

KeyT(bits, s) == FillT("seeded", bits \div 8, Seed + s)
\* the property quantifies over all plaintexts of 0..4096 octets: the thorough tier takes every length, the quick tier every length to 64, every
\* power of two to 4096 with its neighbours (a buffer of a round size shows at exactly that size) and a stride through the rest
Pow2s == {128, 256, 512, 1024, 2048, 4096}
PtLensAll == IF Thorough THEN 0..4096
             ELSE (0..64) \cup UNION { {q - 17, q - 16, q - 15, q - 1, q, q + 1, q + 15, q + 16} : q \in Pow2s } \cup { 97 * i + (Seed % 97) : i \in 1..41 }
Det(s) == [mode |-> "det", seed |-> Seed + s, chunk |-> (s % 4) * 5]      \* chunk > 0: the source answers in short reads
Sys == [mode |-> "system"]

\* encrypt / decrypt round trip for one key size and plaintext length, with a deterministic and the system source
EncVector(bits, n) ==
  LET pt == FillT(IF n % 3 = 0 THEN "ff" ELSE "seeded", n, Seed + n) IN
  Vector("cipher_enc", <<
    CipherNew("a", bits, KeyT(bits, 1)), CipherNew("b", bits, KeyT(bits, 1)),
    EncryptStep("a", pt, Det(n)), DecryptStep("b", Ref(3, "ct"), DecOk(pt)),
    EncryptStep("a", pt, Sys), DecryptStep("a", Ref(5, "ct"), DecOk(pt)),
    EncryptStep("b", pt, Sys) >>)

\* what the random source delivers is arbitrary: every octet it can deliver, as the ONLY octet it delivers (a pad-length or block-count
\* decision taken from a drawn octet meets all 256 values), for the plaintext lengths around the block boundaries; the size law, the
\* inverse and "the IV is what the source delivered" hold whatever the octets are
ConstLens == << 0, 1, 14, 15, 16, 17, 31, 32, 47, 255 >>
ConstVector(bits, v) ==
  LET rnd == [mode |-> "const", val |-> v, seed |-> v] IN
  Vector("cipher_const", << CipherNew("a", bits, KeyT(bits, 5)), CipherNew("b", bits, KeyT(bits, 5)) >>
    \o Flat([q \in 1..Len(ConstLens) |->
          LET pt == FillT("seeded", ConstLens[q], Seed + q + v) IN
          << EncryptStep("a", pt, rnd), DecryptStep("b", Ref(2 * q + 1, "ct"), DecOk(pt)) >>]))

\* decrypt of spec-built ciphertext: L octets in total, recovered pad-length octet v
DecVector(bits, L) ==
  LET key == KeyT(bits, 2) iv == FillT("ramp", 16, L) IN
  IF L < 32 \/ (L - 16) % 16 # 0
    THEN Vector("cipher_dec", << CipherNew("a", bits, key), DecryptStep("a", FillT("seeded", L, Seed + L), DecErr), DecryptStep("a", FillT("zero", L, 0), DecErr) >>)
    ELSE Vector("cipher_dec", << CipherNew("a", bits, key) >> \o
           [v \in 1..256 |->
              LET body == FillT("seeded", L - 17, Seed + v)
                  ct == Cat(<< iv, Cbc(key, iv, Cat(<< body, Lit(<< v - 1 >>) >>)) >>) IN
              DecryptStep("a", ct, IF v > L - 16 THEN DecErr ELSE DecOk(Slice(body, 0, L - 16 - v)))])

WrongKeyVector(bits) ==
  Vector("cipher_key", [n \in 1..65 |-> CipherNew("k" \o ToString(n), bits, FillT("seeded", n - 1, Seed + n))])

\* histories: interleaved calls on two objects of different key sizes, a failing read in the middle, then normal service again
HistVector(k) ==
  LET pt(n) == FillT("seeded", n, Seed + n + k) IN
  Vector("cipher_hist", <<
    CipherNew("a", 128, KeyT(128, 3)), CipherNew("b", 256, KeyT(256, 4)),
    EncryptStep("a", pt(5), Sys), EncryptStep("b", pt(16), Sys), EncryptStep("a", pt(5), Sys),
    EncryptFailStep("a", pt(7), [mode |-> "fail", seed |-> k, failat |-> k % 4]),
    EncryptStep("a", pt(5), Det(k)), DecryptStep("a", Ref(7, "ct"), DecOk(pt(5))),
    EncryptFailStep("b", pt(31), [mode |-> "fail", seed |-> k, failat |-> (k + 1) % 4]),
    EncryptStep("b", pt(31), Sys), DecryptStep("b", Ref(10, "ct"), DecOk(pt(31))),
    DecryptStep("b", Ref(3, "ct"), [panic |-> FALSE, capdiff |-> FALSE]),
    EncryptStep("a", pt(0), Sys), EncryptStep("a", pt(0), Sys), EncryptStep("b", pt(0), Sys) >>)

Init == stage = 0 /\ kind = "" /\ a = 0 /\ b = 0
Next ==
  \/ stage = 0 /\ stage' = 1 /\ kind' \in {"enc", "dec", "key", "hist", "const"} /\ a' \in Bits3 /\ b' = 0
  \/ stage = 1 /\ stage' = 2 /\ UNCHANGED << kind, a >>
     /\ b' \in CASE kind = "enc" -> { n \in PtLensAll : n <= 4096 /\ (Thorough \/ n <= 64 \/ a = 128 + 64 * (n % 3)) }
                 [] kind = "dec" -> (0..96) \cup {272, 288, 304, 528, 1040, 4112}      \* (bodies beyond 256 octets: every pad-length octet fits)
                 [] kind = "key" -> {0}
                 [] kind = "const" -> { x \in 0..255 : Thorough \/ a = 128 + 64 * (x % 3) }
                 [] OTHER -> IF a = 128 THEN 0..7 ELSE {}
  \/ stage = 2 /\ UNCHANGED << stage, kind, a, b >>
Vec == CASE kind = "enc" -> EncVector(a, b) [] kind = "dec" -> DecVector(a, b) [] kind = "key" -> WrongKeyVector(a) [] kind = "const" -> ConstVector(a, b) [] OTHER -> HistVector(b)
Relabel(v) == [v EXCEPT !.steps = [q \in 1..Len(v.steps) |-> [v.steps[q] EXCEPT !.prop = PropId]]]
Emit == stage = 2 => PrintT(ToJson(Relabel(Vec)))
Sound == TRUE
=============================================================================
