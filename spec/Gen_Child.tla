------------------------------ MODULE Gen_Child ------------------------------
(* C08: Child SA keying material.  One long-lived IKE SA object per vector; a sequence of derivations with every    *)
(* (encryption size, integrity) combination and several nonce lengths (including empty); the k-th derivation must  *)
(* give the RFC 7296 2.17 terms -- i.e. what a fresh copy of the SA gives -- for k up to N (quick 48, thorough 120). *)
EXTENDS KeyLife, Pools
CONSTANT N
VARIABLES stage, prf, salt

EncrSeq == << 128, 192, 256 >>
IntegSeq == << "none", "md5", "sha1", "sha256" >>
\* Ni | Nr of two 256-octet nonces is 512 octets; nothing in the property bounds the string, so longer ones are offered too
NonceSeq == << FillT("seeded", 0, 0), FillT("seeded", 1, 2), FillT("seeded", 32, 3), FillT("ramp", 64, 4), FillT("ff", 40, 0), FillT("seeded", 300, 5),
               FillT("seeded", 16, 6), FillT("seeded", 255, 7), FillT("seeded", 256, 8), FillT("seeded", 257, 9), FillT("seeded", 320, 10),
               FillT("seeded", 337, 11), FillT("ramp", 512, 12), FillT("seeded", 1024, 13), FillT("seeded", 4099, 14) >>

SkdLen(p) == PrfLen(p)
ChildVector(p, s) ==
  LET su == Suite(256, "sha1", p)
      keys == KeysRandom(su, 1, s)
      \* after the N derivations on a name-built Child SA object, every encryption size x integrity algorithm on a Child SA object built
      \* from a negotiated proposal that offers no DH transform, group 2, or group 14
      dir(i) == ChildStep("C08", "A", "K" \o ToString(i) \o "_", p, keys.sk_d,
                          NonceSeq[((i + s) % Len(NonceSeq)) + 1], EncrSeq[(i % 3) + 1], IntegSeq[((i \div 3) % 4) + 1])
      pv(j) == ChildStepVia("C08", "A", "V" \o ToString(j) \o "_", p, keys.sk_d,
                            NonceSeq[((j + s) % Len(NonceSeq)) + 1], EncrSeq[(j % 3) + 1], IntegSeq[((j \div 3) % 3) + 2],
                            << "proposal", "proposal-dh2", "proposal-dh14" >>[((j \div 9) % 3) + 1])
      st(i) == IF i <= N THEN dir(i) ELSE pv(i - N - 1) IN
  VectorD("child", << >>, << SaNew("A", su, keys) >> \o [i \in 1..(N + 27) |-> st(i)])

Init == stage = 0 /\ prf = "" /\ salt = 0
Next == \/ stage = 0 /\ stage' = 1 /\ prf' \in PrfNames /\ salt' \in (IF Thorough THEN 1..6 ELSE 1..2)
        \/ stage = 1 /\ UNCHANGED << stage, prf, salt >>
Emit == stage = 1 => PrintT(ToJson(ChildVector(prf, salt)))
Sound == TRUE
=============================================================================
