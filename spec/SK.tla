---------------------------------- MODULE SK ----------------------------------
(***************************************************************************)
(* RFC 7296 section 3.14: the Encrypted payload, as terms.                  *)
(*   datagram = header(next = 46, length = total) |                        *)
(*              generic(next = first inner payload, length = 4+body) |     *)
(*              IV | AES-CBC(SK_e[sender], IV, inner | pad | padlen) | ICV  *)
(*   ICV = first IcvLen octets of HMAC(SK_a[sender], everything before it) *)
(* Both length fields are final before the MAC is computed.                *)
(* The receiver in role r uses SK_e / SK_a of the PEER direction.          *)
(***************************************************************************)
EXTENDS Domain, Terms

\* direction-specific key names: role TRUE = initiator
EncKeyName(initiator)   == IF initiator THEN "sk_ei" ELSE "sk_er"
IntegKeyName(initiator) == IF initiator THEN "sk_ai" ELSE "sk_ar"

PadLens(n) == { p \in 0..255 : (n + p + 1) % 16 = 0 }       \* every legal pad length for n inner octets
MinPad(n)  == (16 - ((n + 1) % 16)) % 16

\* the reference protected datagram for message m (D-form) sent by `initiator`, with the given IV term (16 octets),
\* pad length and pad-content term (padLen octets); keys: record of key terms
RefProtectParts(m, su, keys, initiator, iv, padLen, pad) ==
  LET inner   == EncChain(NormChain(m.payloads))
      pt      == Cat(<< Lit(inner), pad, Lit(<< padLen >>) >>)
      ctLen   == Len(inner) + padLen + 1
      bodyLen == 16 + ctLen + IcvLen(su.integ)
      hdr     == EncHeader(m, 46, 4 + bodyLen)
      gen     == << FirstOf(m.payloads), 0 >> \o U16(4 + bodyLen)
      ct      == Cbc(keys[EncKeyName(initiator)], iv, pt)
      front   == Cat(<< Lit(hdr \o gen), iv, ct >>)
      icv     == Slice(Hmac(su.integ, keys[IntegKeyName(initiator)], front), 0, IcvLen(su.integ))
  IN [wire |-> Cat(<< front, icv >>), len |-> 28 + 4 + bodyLen, inner |-> inner, ctLen |-> ctLen]
RefProtect(m, su, keys, initiator, iv, padLen, pad) == RefProtectParts(m, su, keys, initiator, iv, padLen, pad).wire
\* the same for arbitrary plaintext octets `plain` (inner chain, padding and pad-length octet already in it; a block
\* multiple) and an arbitrary first-inner-payload type: an AUTHENTIC datagram whose inside may be malformed
RefProtectRaw(h, first, plain, su, keys, initiator, iv) ==
  LET bodyLen == 16 + Len(plain) + IcvLen(su.integ)
      hdr     == EncHeader(h, 46, 4 + bodyLen)
      gen     == << first, 0 >> \o U16(4 + bodyLen)
      front   == Cat(<< Lit(hdr \o gen), iv, Cbc(keys[EncKeyName(initiator)], iv, Lit(plain)) >>)
  IN Cat(<< front, Slice(Hmac(su.integ, keys[IntegKeyName(initiator)], front), 0, IcvLen(su.integ)) >>)
\* the same with unsupported payloads `pre` (a sequence of [t, crit, body]) in the CLEARTEXT chain in front of the Encrypted payload;
\* the checksum covers them like everything else before it
RefProtectOuter(h, pre, first, plain, su, keys, initiator, iv) ==
  LET bodyLen == 16 + Len(plain) + IcvLen(su.integ)
      n       == Len(pre)
      one(i)  == << (IF i < n THEN pre[i + 1].t ELSE 46), pre[i].crit * 128 >> \o U16(4 + Len(pre[i].body)) \o pre[i].body
      RECURSIVE cat(_)
      cat(i)  == IF i > n THEN << >> ELSE one(i) \o cat(i + 1)
      preb    == cat(1)
      hdr     == EncHeader(h, IF n = 0 THEN 46 ELSE pre[1].t, Len(preb) + 4 + bodyLen)
      gen     == << first, 0 >> \o U16(4 + bodyLen)
      front   == Cat(<< Lit(hdr \o preb \o gen), iv, Cbc(keys[EncKeyName(initiator)], iv, Lit(plain)) >>)
  IN Cat(<< front, Slice(Hmac(su.integ, keys[IntegKeyName(initiator)], front), 0, IcvLen(su.integ)) >>)
\* minimal padding of inner octets to a block multiple
Padded(inner) == inner \o Zeros(MinPad(Len(inner))) \o << MinPad(Len(inner)) >>
ProtectedLen(m, su, padLen) == 28 + 4 + 16 + Len(EncChain(NormChain(m.payloads))) + padLen + 1 + IcvLen(su.integ)
\* the library pads minimally today; any padLen in PadLens is legal.  Length of what the library produces:
LibProtectedLen(m, su) == ProtectedLen(m, su, MinPad(Len(EncChain(NormChain(m.payloads)))))

\* a message whose protected form still fits the 16-bit payload length (C01 domain)
FitsProtected(m, su) == 4 + 16 + Len(EncChain(NormChain(m.payloads))) + 256 + IcvLen(su.integ) <= 65535

\* ---- judging a datagram the library produced (C06 direction 1).  b: octets; icvLen from the suite.
SplitSK(b, il) ==
  IF Len(b) < 28 + 4 + 16 + 16 + il THEN Err("too short for an Encrypted payload")
  ELSE IF b[17] # 46 THEN Err("header does not announce an Encrypted payload")
  ELSE IF Sub(b, 25, 4) # U32(Len(b)) THEN Err("header length differs from datagram size")
  ELSE IF Rd16(b, 31) # Len(b) - 28 THEN Err("Encrypted payload length differs from its extent")
  ELSE IF b[30] # 0 THEN Err("critical / reserved bits set on the Encrypted payload")
  ELSE IF (Len(b) - 48 - il) % 16 # 0 THEN Err("ciphertext is not a block multiple")
  ELSE Ok([hdr |-> HeaderOf(b), sknext |-> b[29], iv |-> Sub(b, 33, 16), ct |-> Sub(b, 49, Len(b) - 48 - il),
           icv |-> From(b, Len(b) - il + 1), macdata |-> Take(b, Len(b) - il)])

\* given the two oracle answers (HMAC over the span the spec names, textbook CBC decryption of the segment the spec
\* names), is b the protection of m?
ProtectedIs(b, m, su, mac, pt) ==
  LET s == SplitSK(b, IcvLen(su.integ)) IN
  IF ~s.ok THEN s.why
  ELSE IF s.v.hdr # HdrFields(m) THEN "cleartext header differs from the message header"
  ELSE IF s.v.sknext # FirstOf(m.payloads) THEN "Encrypted payload's next-payload is not the first inner payload"
  ELSE IF s.v.icv # Take(mac, IcvLen(su.integ)) THEN "checksum is not the truncated HMAC over header..ciphertext under the sender's integrity key"
  ELSE IF Len(pt) # Len(s.v.ct) THEN "oracle: plaintext length"
  ELSE LET padLen == pt[Len(pt)] inner == EncChain(NormChain(m.payloads)) IN
       IF padLen + 1 + Len(inner) # Len(pt) THEN "plaintext is not inner payloads | pad | pad length"
       ELSE IF Take(pt, Len(inner)) # inner THEN "decrypted inner payloads differ from the encoding of the message's payloads"
       ELSE "ok"
=============================================================================
