---------------------------- MODULE DecoderCursor ----------------------------
(***************************************************************************)
(* C04.  A decoder is a cursor moving through nested extents: datagram >   *)
(* payload > proposal > transform > attribute (and the analogous nests of  *)
(* TS, CP, Notify, Delete, EAP, EAP-AKA').  Every size / length / count    *)
(* field of the wire format is a SITE: an offset and a width at which a    *)
(* value is read that later steers the cursor.  This module computes the   *)
(* sites of a W-form datagram (from the same layout knowledge as the       *)
(* reference encoder), and the wire-level edits the generation config      *)
(* applies to them: field overwrite x truncation / extension.              *)
(* The outcome the specification allows for ANY octet string is given by   *)
(* CodecLife!ExpectDecode: the reference parse if the strict parser        *)
(* accepts it, otherwise "value or error" -- but always: returns, does not *)
(* crash, and depends on the visible octets only (capdiff = FALSE).        *)
(***************************************************************************)
EXTENDS CodecLife, EapLife

Site(off, w, nm) == [off |-> off, w |-> w, nm |-> nm, start |-> 0 - 1, unit |-> 0]   \* off is 0-based; not a length field
\* a length field: the element it measures starts at 0-based offset start and extends unit * value octets
LenSite(off, w, nm, start, unit) == [off |-> off, w |-> w, nm |-> nm, start |-> start, unit |-> unit]

\* start offsets of consecutive elements with the given encoded lengths
RECURSIVE Starts(_, _)
Starts(lens, base) == IF Len(lens) = 0 THEN << >> ELSE << base >> \o Starts(Tail(lens), base + Head(lens))
UnionSeq(ss) == UNION { ss[i] : i \in 1..Len(ss) }

AttrLenW(a)  == Len(EncAttrW(a))
TransLenW(t) == Len(EncTransW(t, TRUE))
PropLenW(p)  == Len(EncPropW(p, TRUE))

AttrSites(a, o) == { Site(o, 2, "attr.aftype") } \cup (IF a.af = 0 THEN { LenSite(o + 2, 2, "attr.len", o + 4, 1) } ELSE {})
TransSites(t, o) ==
  { Site(o, 1, "transform.last"), LenSite(o + 2, 2, "transform.len", o, 1), Site(o + 4, 1, "transform.type") }
  \cup LET st == Starts([i \in 1..Len(t.attrs) |-> AttrLenW(t.attrs[i])], o + 8) IN
       UnionSeq([i \in 1..Len(t.attrs) |-> AttrSites(t.attrs[i], st[i])])
PropSites(p, o) ==
  { Site(o, 1, "proposal.last"), LenSite(o + 2, 2, "proposal.len", o, 1), Site(o + 6, 1, "proposal.spisize"), Site(o + 7, 1, "proposal.ntransforms") }
  \cup LET st == Starts([i \in 1..Len(p.tr) |-> TransLenW(p.tr[i])], o + 8 + Len(p.spi)) IN
       UnionSeq([i \in 1..Len(p.tr) |-> TransSites(p.tr[i], st[i])])

AkaAttrSites(a, o) == { Site(o, 1, "aka.attrtype"), LenSite(o + 1, 1, "aka.attrlen", o, 4) }
                      \cup (IF a.t \in AkaBitLen THEN { Site(o + 2, 2, "aka.bitlen") } ELSE {})
EapSites(e, o) ==
  { Site(o, 1, "eap.code"), LenSite(o + 2, 2, "eap.len", o, 1) }
  \cup (IF e.m # "none" THEN { Site(o + 4, 1, "eap.type") } ELSE {})
  \cup (IF e.m = "aka"
          THEN LET st == Starts([i \in 1..Len(e.attrs) |-> Len(EncAkaAttrW(e.attrs[i]))], o + 8) IN
               UnionSeq([i \in 1..Len(e.attrs) |-> AkaAttrSites(e.attrs[i], st[i])])
          ELSE {})

BodySites(p, o) ==
  CASE p.k = "SA" -> LET st == Starts([i \in 1..Len(p.props) |-> PropLenW(p.props[i])], o) IN
                     UnionSeq([i \in 1..Len(p.props) |-> PropSites(p.props[i], st[i])])
    [] p.k = "N"  -> { Site(o + 1, 1, "notify.spisize") }
    [] p.k = "D"  -> { Site(o + 1, 1, "delete.spisize"), Site(o + 2, 2, "delete.count") }
    [] p.k \in {"TSi", "TSr"} ->
         { Site(o, 1, "ts.count") }
         \cup LET st == Starts([i \in 1..Len(p.sel) |-> Len(EncSelW(p.sel[i]))], o + 4) IN
              UnionSeq([i \in 1..Len(p.sel) |-> { Site(st[i], 1, "ts.type"), LenSite(st[i] + 2, 2, "ts.sellen", st[i], 1) }])
    [] p.k = "CP" -> LET st == Starts([i \in 1..Len(p.attrs) |-> Len(EncCfgAttrW(p.attrs[i]))], o + 4) IN
                     UnionSeq([i \in 1..Len(p.attrs) |-> { Site(st[i], 2, "cp.attrtype"), LenSite(st[i] + 2, 2, "cp.attrlen", st[i] + 4, 1) }])
    [] p.k = "EAP" -> EapSites(p.eap, o)
    [] OTHER -> {}        \* incl. unsupported payloads: only the generic header steers the cursor

PayloadLenW(p) == 4 + Len(EncBodyW(p))
PayloadSites(p, o) == { Site(o, 1, "payload.next"), Site(o + 1, 1, "payload.crit"), LenSite(o + 2, 2, "payload.len", o, 1) } \cup BodySites(p, o + 4)

MsgSites(w) ==
  { Site(16, 1, "hdr.next"), Site(17, 1, "hdr.version"), LenSite(24, 4, "hdr.len", 0, 1) }
  \cup LET st == Starts([i \in 1..Len(w.payloads) |-> PayloadLenW(w.payloads[i])], 28) IN
       UnionSeq([i \in 1..Len(w.payloads) |-> PayloadSites(w.payloads[i], st[i])])

\* ---- edits
\* value v (a natural) written big-endian into the w octets of the site
PutSite(b, s, v) == Overwrite(b, s.off + 1, CASE s.w = 1 -> U8(v) [] s.w = 2 -> U16(v) [] s.w = 4 -> U32(v))
\* delta < 0: cut -delta octets from the end; delta > 0: append delta filler octets
Resize(b, delta, filler) == IF delta <= 0 THEN Take(b, Max(0, Len(b) + delta)) ELSE b \o Const(delta, filler)
\* keep the header length field equal to the datagram size (so that only the inner inconsistency remains)
FixHdrLen(b) == IF Len(b) >= 28 THEN Overwrite(b, 25, U32(Len(b))) ELSE b

\* consistent re-framing: the element measured by length site s grows (k > 0, filler octets appended at its end) or
\* shrinks (k < 0) by k octets and every enclosing length field is adjusted, so that only the element's own content
\* is inconsistent with its length (e.g. a transform of 9..11 octets: a truncated attribute)
CurOf(b, s) == CASE s.w = 1 -> b[s.off + 1] [] s.w = 2 -> Rd16(b, s.off + 1) [] OTHER -> Len(b)
EndOf(b, s) == s.start + s.unit * CurOf(b, s)
Reframe(b, sites, s, k, filler) ==
  LET e   == EndOf(b, s)
      enc == { x \in sites : x.unit = 1 /\ x # s /\ x.start <= s.start /\ EndOf(b, x) >= e }
      b1  == IF k >= 0 THEN Take(b, e) \o Const(k, filler) \o From(b, e + 1)
                       ELSE Take(b, e + k) \o From(b, e + 1)
      RECURSIVE Fix(_, _)
      Fix(bb, S) == IF S = {} THEN bb
                    ELSE LET x == CHOOSE y \in S : TRUE IN
                         Fix(PutSite(bb, x, CurOf(b, x) + k), S \ {x})
  IN PutSite(Fix(b1, enc), s, CurOf(b, s) + k \div s.unit)
Reframable(b, s, k) == s.unit > 0 /\ k % s.unit = 0 /\ CurOf(b, s) * s.unit + k >= 0 /\ (k >= 0 \/ EndOf(b, s) + k >= s.start)

SiteValues(b, s) ==
  LET cur == CASE s.w = 1 -> b[s.off + 1] [] s.w = 2 -> Rd16(b, s.off + 1) [] OTHER -> Len(b)
      rem == Len(b) - s.off IN
  IF s.w = 1 THEN 0..255
  ELSE { v \in {0, 1, 2, 3, 4, 5, 7, 8, 9, 11, 12, 13, 15, 16, 17, 27, 28, 29, 39, 40, 41, 255, 256, 257, 32767, 32768,
               cur - 1, cur, cur + 1, rem - 1, rem, rem + 1, rem - 4, rem + 4} \cup (65524..65535)
               \* a length counted in BITS: every value from a little below the value's real size to beyond the end of the attribute's last word
               \* (lengths that are no multiple of 8, lengths that fill the attribute exactly, one octet / one word too many)
               \cup (IF s.nm = "aka.bitlen" THEN (cur - 17)..(cur + 41) ELSE {}) : v >= 0 /\ v <= 65535 }

CursorVector(b, nm) ==
  Vector("cursor", <<
    Step("decode", "C04", FALSE, [wire |-> b, caps |-> TRUE, site |-> nm], ExpectDecode(b)),
    Step("reencode", "C12", FALSE, [wire |-> b], ExpectReencode(b)) >>
    \o (IF Len(b) >= 28
          THEN << Step("decode_chain", "C04", FALSE, [first |-> b[17], wire |-> From(b, 29), caps |-> TRUE, site |-> nm],
                       ExpectDecodeChain(b[17], From(b, 29))) >>
          ELSE << >>))
=============================================================================
