----------------------------- MODULE KeySchedule -----------------------------
(***************************************************************************)
(* RFC 7296 sections 2.13, 2.14, 2.17 and RFC 5448 section 3.3 / RFC 9048  *)
(* as terms.                                                               *)
(*   prf+ (K, S) = T1 | T2 | ...   T1 = prf(K, S | 0x01)                   *)
(*                                 Tn = prf(K, T(n-1) | S | n)             *)
(*   SKEYSEED = prf(Ni | Nr, g^ir)                                         *)
(*   {SK_d | SK_ai | SK_ar | SK_ei | SK_er | SK_pi | SK_pr}                *)
(*            = prf+(SKEYSEED, Ni | Nr | SPIi | SPIr)                      *)
(*   KEYMAT = prf+(SK_d, Ni | Nr)  taken in the order ei, ai, er, ar       *)
(* To keep vectors small the blocks T1..Tk are emitted as named            *)
(* definitions (Var) instead of being nested.                              *)
(***************************************************************************)
EXTENDS Terms

CeilDiv(a, b) == (a + b - 1) \div b

\* definitions T<pfx>1 .. T<pfx>k for prf+ with key term K (of any length), seed term S, at least n octets
PrfPlusDefs(pfx, h, K, S, n) ==
  LET k == Max(1, CeilDiv(n, HashLen(h)))
      nm(i) == pfx \o ToString(i) IN
  [i \in 1..k |->
     [n |-> nm(i),
      t |-> IF i = 1 THEN Hmac(h, K, Cat(<< S, Lit(<< 1 >>) >>))
                     ELSE Hmac(h, K, Cat(<< Var(nm(i - 1), HashLen(h)), S, Lit(<< i >>) >>))]]
PrfPlusStream(pfx, h, n) ==
  LET k == Max(1, CeilDiv(n, HashLen(h))) IN Cat([i \in 1..k |-> Var(pfx \o ToString(i), HashLen(h))])

\* IKE SA keys.  suite = [encr, integ, prf]; ni_nr, secret: octet-string terms; spii, spir: 8-octet terms
IkeKeyLens(su) == << PrfLen(su.prf), IntegKeyLen(su.integ), IntegKeyLen(su.integ), EncrKeyLen(su.encr), EncrKeyLen(su.encr),
                     PrfLen(su.prf), PrfLen(su.prf) >>
IkeKeyNames == << "sk_d", "sk_ai", "sk_ar", "sk_ei", "sk_er", "sk_pi", "sk_pr" >>
RECURSIVE SumTo(_, _)
SumTo(s, i) == IF i = 0 THEN 0 ELSE s[i] + SumTo(s, i - 1)

\* (px: a name prefix, so that one vector can hold the definitions of several derivations)
IkeKeyDefsP(px, su, ni_nr, secret, spii, spir) ==
  LET lens == IkeKeyLens(su) total == SumTo(lens, 7) IN
  << [n |-> px \o "skeyseed", t |-> Hmac(su.prf, ni_nr, secret)] >>
  \o PrfPlusDefs(px \o "T", su.prf, Var(px \o "skeyseed", HashLen(su.prf)), Cat(<< ni_nr, spii, spir >>), total)
IkeKeyTermsP(px, su) ==
  LET lens == IkeKeyLens(su) total == SumTo(lens, 7) stream == PrfPlusStream(px \o "T", su.prf, total) IN
  [i \in 1..7 |-> Slice(stream, SumTo(lens, i - 1), lens[i])]
IkeKeyRecP(px, su) == LET ts == IkeKeyTermsP(px, su) IN
  [sk_d |-> ts[1], sk_ai |-> ts[2], sk_ar |-> ts[3], sk_ei |-> ts[4], sk_er |-> ts[5], sk_pi |-> ts[6], sk_pr |-> ts[7]]
IkeKeyDefs(su, ni_nr, secret, spii, spir) == IkeKeyDefsP("", su, ni_nr, secret, spii, spir)
IkeKeyTerms(su) == IkeKeyTermsP("", su)
IkeKeyRec(su) == IkeKeyRecP("", su)

\* Child SA keys (RFC 7296 2.17): encrLen / integLen in octets (integLen = 0 when no integrity is negotiated)
ChildKeyDefs(pfx, prf, skd, ni_nr, encrLen, integLen) == PrfPlusDefs(pfx, prf, skd, ni_nr, 2 * (encrLen + integLen))
ChildKeyRec(pfx, prf, encrLen, integLen) ==
  LET stream == PrfPlusStream(pfx, prf, 2 * (encrLen + integLen)) IN
  [ei |-> Slice(stream, 0, encrLen), ai |-> Slice(stream, encrLen, integLen),
   er |-> Slice(stream, encrLen + integLen, encrLen), ar |-> Slice(stream, 2 * encrLen + integLen, integLen)]

\* EAP-AKA' (RFC 5448 3.3, 3.4.1; RFC 9048): PRF'(IK'|CK', "EAP-AKA'"|Identity), 208 octets
AkaLabel == << 69, 65, 80, 45, 65, 75, 65, 39 >>      \* "EAP-AKA'"
PrfPrimeDefsP(px, ik, ck, identity) == PrfPlusDefs(px \o "M", "sha256", Cat(<< ik, ck >>), Cat(<< Lit(AkaLabel), identity >>), 208)
PrfPrimeRecP(px) ==
  LET stream == PrfPlusStream(px \o "M", "sha256", 208) IN
  [k_encr |-> Slice(stream, 0, 16), k_aut |-> Slice(stream, 16, 32), k_re |-> Slice(stream, 48, 32),
   msk |-> Slice(stream, 80, 64), emsk |-> Slice(stream, 144, 64)]
PrfPrimeDefs(ik, ck, identity) == PrfPrimeDefsP("", ik, ck, identity)
PrfPrimeRec == PrfPrimeRecP("")
=============================================================================
