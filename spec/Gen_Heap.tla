------------------------------- MODULE Gen_Heap -------------------------------
(* C20 generation: every history of HeapLife up to MaxOps operations, each replayed on a pool message with real *)
(* buffers: the receive buffer is really overwritten, the returned buffer is really overwritten.                *)
EXTENDS CodecLife, Pools
CONSTANTS MaxOps
VARIABLES inver, dec, hasdec, srcver, outver, outalias, hasout, encs, prot, helds, inlib, ops
H == INSTANCE HeapLife WITH CopyOnDecode <- TRUE, EncodeFresh <- TRUE, ProtectKeepsPayloads <- TRUE, OutputsDistinct <- TRUE, EncodeLeavesInput <- TRUE

HeapMsgs == << Msg(1, ChainAll), Msg(2, << Rep("SA"), Rep("KE"), Rep("NONCE") >>), Msg(3, << Rep("EAP") >>), Msg(4, << Rep("TSi"), Rep("TSr"), Rep("CP") >>),
               Msg(5, << Rep("IDi"), Rep("CERT"), Rep("CERTREQ"), Rep("AUTH") >>), Msg(1, << Rep("N"), Rep("D"), Rep("V"), Rep("IDr") >>),
               Msg(2, << [k |-> "SA", props |-> << Prop(0, 0, 255, TC) >>] >>),
               Msg(4, << [k |-> "EAP", eap |-> Aka(2, 3, 1, AkaOfSubset(AkaSettable))], Rep("N") >>),
               Msg(5, << [k |-> "CP", cft |-> 2, attrs |-> << CA(49153, D(4, 7)), CA(32768, << >>) >>], Rep("V") >>),
               Msg(3, << [k |-> "EAP", eap |-> [code |-> 2, id |-> 8, m |-> "expanded", vid |-> 10415, vtype |-> << 0, 0, 0, 3 >>, data |-> D(9, 73)]],
                         [k |-> "EAP", eap |-> [code |-> 1, id |-> 8, m |-> "identity", data |-> D(3, 74)]],
                         [k |-> "EAP", eap |-> [code |-> 2, id |-> 8, m |-> "nak", data |-> D(2, 75)]],
                         [k |-> "EAP", eap |-> [code |-> 1, id |-> 8, m |-> "notification", data |-> D(5, 76)]] >>),
               \* lists in which elements REPEAT (an encoder that tidies a list up must do so on a copy), values with zero octets at the edges
               Msg(2, << [k |-> "D", proto |-> 3, spisz |-> 4, num |-> 3, spis |-> << D(4, 1), D(4, 1), D(4, 2) >>],
                         [k |-> "D", proto |-> 2, spisz |-> 4, num |-> 5, spis |-> << D(4, 3), D(4, 4), D(4, 3), D(4, 3), D(4, 5) >>],
                         [k |-> "TSr", sel |-> << Sel6(17, 1, 2, 34), Sel6(17, 1, 2, 34), Sel4(6, 256, 1, 33), Sel6(17, 1, 2, 34) >>],
                         [k |-> "TSi", sel |-> << Sel4(6, 256, 1, 33), Sel4(6, 256, 1, 33), Sel6(255, 65535, 0, 35) >>] >>),
               Msg(4, << [k |-> "SA", props |-> << Prop(1, 1, 8, << TrTV(1, 12, 14, 256), TrTV(1, 12, 14, 256), TrTV(1, 12, 14, 128), TrNone(2, 5), TrNone(2, 5), TrNone(2, 2), TrNone(3, 2), TrNone(4, 14), TrNone(4, 14) >>),
                                                   Prop(1, 1, 8, << TrTV(1, 12, 14, 256), TrNone(2, 5), TrNone(3, 2), TrNone(4, 14) >>) >>],
                         [k |-> "CP", cft |-> 1, attrs |-> << CA(8, << >>), CA(3, D(4, 6)), CA(3, D(4, 6)), CA(8, << >>), CA(3, D(4, 7)) >>],
                         Rep("N"), Rep("N"), Rep("CERTREQ"), Rep("CERTREQ") >>),
               \* exchange type x flags x Notify types with protocol meaning (an encoder that knows about cookies still leaves the list alone)
               Msg(1, << Rep("SA"), Rep("KE"), Rep("NONCE"), Nt(16390, 20), Nt(16388, 20), Nt(14, 0) >>),
               [Msg(1, << Nt(16388, 20), Nt(16390, 20), Rep("NONCE") >>) EXCEPT !.flags = 32, !.rspi = D(8, 3)],
               Msg(1, << Nt(17, 2), Nt(16390, 8) >>),
               Msg(6, << [k |-> "IDi", idt |-> 2, data |-> Edge("trail0", 9, 1)], [k |-> "NONCE", data |-> Edge("lead00", 16, 2)], [k |-> "V", data |-> Edge("zeros", 8, 3)],
                         [k |-> "EAP", eap |-> [code |-> 2, id |-> 128, m |-> "identity", data |-> Edge("trail00", 9, 4)]],
                         [k |-> "TSi", sel |-> << SelA(8, Zeros(10) \o << 255, 255, 10, 0, 0, 1 >>, Zeros(10) \o << 255, 255, 10, 0, 0, 9 >>), SelA(7, Zeros(4), Const(4, 255)) >>] >>) >>

Code(o) == CASE o = "decode" -> 1 [] o = "unprotect" -> 2 [] o = "scribble_in" -> 3 [] o = "encode" -> 4 [] o = "scribble_out" -> 5 [] o = "protect" -> 6 [] o = "encode_dec" -> 8 [] OTHER -> 7
RECURSIVE Hash(_)
Hash(s) == IF Len(s) = 0 THEN Seed ELSE (Hash(Tail(s)) * 7 + Code(Head(s))) % 1009
MsgOf(s) == HeapMsgs[(Hash(s) % Len(HeapMsgs)) + 1]

\* what a correct decoder returns for the reference encoding of m (equals Norm(m) inside the encodable domain)
DecMsg(m) == Classify(EncMsg(Norm(m))).v
HdrOf(m) == [ispi |-> m.ispi, rspi |-> m.rspi, maj |-> m.maj, min |-> m.min, xt |-> m.xt, flags |-> m.flags, mid |-> m.mid]

\* expectations along a history (decoded: has a decode happened yet)
RECURSIVE Steps(_, _, _)
Steps(s, m, decoded) ==
  IF Len(s) = 0 THEN << >>
  ELSE LET o == Head(s)
           st == CASE o \in {"decode", "unprotect"} ->
                        Step("heap_decode", "C20", FALSE, [how |-> o], [panic |-> FALSE, err |-> FALSE, msg |-> DecMsg(m), insame |-> TRUE])
                   [] o = "scribble_in" -> Step("heap_scribble_in", "C20", FALSE, [mode |-> Len(s) % 2], NoCrash)
                   [] o = "encode" -> Step("heap_encode", "C20", FALSE, [x |-> 0],
                                           \* (outside the encodable domain there is no reference encoding, but encoding must still not alter the message)
                                           IF Encodable(m) THEN [panic |-> FALSE, err |-> FALSE, wire |-> EncMsg(Norm(m)), srcafter |-> Norm(m).payloads, refsout |-> FALSE, heldsame |-> TRUE, insame |-> TRUE, outfresh |-> TRUE]
                                                           ELSE [panic |-> FALSE, srcafter |-> Norm(m).payloads, refsout |-> FALSE, heldsame |-> TRUE, insame |-> TRUE])
                   [] o = "scribble_out" -> Step("heap_scribble_out", "C20", FALSE, [x |-> 0], NoCrash)
                   [] o = "encode_dec" ->
                        LET m2 == [DecMsg(m) EXCEPT !.payloads = << Rep("N") >> \o @] IN
                        Step("heap_encode_dec", "C20", FALSE, [extra |-> Rep("N")],
                             IF Encodable(m2) THEN [panic |-> FALSE, err |-> FALSE, wire |-> EncMsg(Norm(m2)), insame |-> TRUE, heldsame |-> TRUE, outfresh |-> TRUE]
                                              ELSE [panic |-> FALSE, insame |-> TRUE, heldsame |-> TRUE])
                   [] o = "protect" -> Step("heap_protect", "C20", FALSE, [suite |-> (Len(s) % 9) + 1, role |-> (Len(s) % 2 = 0)],
                                            \* (outside the encodable domain protection may be refused -- then the message stays as it was)
                                            IF Encodable(m) THEN [panic |-> FALSE, err |-> FALSE, srchdr |-> HdrOf(m), orig |-> Norm(m).payloads, held |-> Norm(m).payloads, nsk |-> 1, outfresh |-> TRUE, skplain |-> TRUE]
                                                            ELSE [panic |-> FALSE, srchdr |-> HdrOf(m), orig |-> Norm(m).payloads])
                   [] OTHER -> Step("heap_observe", "C20", FALSE, [x |-> 0],
                                    IF decoded THEN [panic |-> FALSE, dmsg |-> DecMsg(m).payloads, orig |-> Norm(m).payloads, held |-> Norm(m).payloads, srchdr |-> HdrOf(m), heldsame |-> TRUE, insame |-> TRUE, protsame |-> TRUE]
                                               ELSE [panic |-> FALSE, orig |-> Norm(m).payloads, held |-> Norm(m).payloads, srchdr |-> HdrOf(m), heldsame |-> TRUE, insame |-> TRUE, protsame |-> TRUE])
       IN << st >> \o Steps(Tail(s), m, decoded \/ o \in {"decode", "unprotect"})

HeapVector(s) ==
  LET m == MsgOf(s) IN
  Vector("heap", << Step("heap_init", "C20", FALSE, [msg |-> m, wire |-> EncMsg(Norm(m))], NoCrash) >>
                 \o Steps(s, m, FALSE)
                 \o << Step("heap_observe", "C20", FALSE, [x |-> 0],
                            IF \E i \in 1..Len(s) : s[i] \in {"decode", "unprotect"}
                              THEN [panic |-> FALSE, dmsg |-> DecMsg(m).payloads, orig |-> Norm(m).payloads, held |-> Norm(m).payloads, srchdr |-> HdrOf(m), heldsame |-> TRUE, insame |-> TRUE, protsame |-> TRUE]
                              ELSE [panic |-> FALSE, orig |-> Norm(m).payloads, held |-> Norm(m).payloads, srchdr |-> HdrOf(m), heldsame |-> TRUE, insame |-> TRUE, protsame |-> TRUE]) >>)

Init == H!Init
Next == H!Next
\* only histories that end the exploration (maximal length) or contain a write are worth a replay
Interesting == Len(ops) = MaxOps \/ (Len(ops) >= 2 /\ ops[Len(ops)] \in {"scribble_in", "scribble_out", "protect", "encode_dec"})
Emit == Interesting => PrintT(ToJson(HeapVector(ops)))
Sound == (\A q \in 1..Len(HeapMsgs) : Classify(EncMsg(Norm(HeapMsgs[q]))).class = "value") /\ H!DecodedStable /\ H!EncodePure /\ H!EncodeDeterministic /\ H!ProtectFootprint /\ H!HeldOutputsIntact /\ H!InputOnlyByCaller
=============================================================================
