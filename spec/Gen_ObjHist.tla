----------------------------- MODULE Gen_ObjHist -----------------------------
(* Every history of ObjHist (loads and uses of ONE long-lived object) for three object kinds, with concrete values:        *)
(*   msg    one IKEMessage object: load = header fields assigned, Payloads.Reset(), payloads appended; use = Encode         *)
(*   eap    one EAP object: load = Unmarshal of the next packet; use = Marshal                                              *)
(*   ikesa  one IKESAKey object: load = GenerateKeyForIKESA (again); use = probe of the ready-made objects, a Child SA      *)
(*          derivation, one protected message to a peer keyed with the expected keys                                        *)
(* The expectation of every use is the one of a fresh object loaded once (ObjHist!AsFresh).  PropId: the property the run   *)
(* is made for (the same histories serve C03 C05 C20 / C12 C14 / C07 C08 C17).                                              *)
EXTENDS KeyLife, EapLife, Pools
CONSTANTS Kind, PropId, MaxOps
VARIABLES cur, residue, ops
NV == IF Kind = "ikesa" THEN 4 ELSE 5
OH == INSTANCE ObjHist WITH NVals <- NV, CleanLoad <- TRUE

\* ---- msg
MsgVals == << Msg(1, ChainAll), Msg(2, << >>), Msg(3, << Rep("N") >>), Msg(4, << Rep("EAP"), Rep("IDi") >>), Msg(5, << [k |-> "V", data |-> D(1400, 3)] >>) >>
MsgSteps(o) == IF o.op = "load" THEN << Step("msgobj_set", PropId, FALSE, [msg |-> MsgVals[o.v]], [panic |-> FALSE, err |-> FALSE]) >>
               ELSE << Step("msgobj_encode", PropId, FALSE, [x |-> 0], [panic |-> FALSE, err |-> FALSE, wire |-> EncMsg(Norm(MsgVals[o.v]))]) >>

\* ---- eap
EapVals == << Aka(1, 9, 1, AkaOfSubset({AT_RAND, AT_AUTN, AT_KDF, AT_KDF_INPUT, AT_MAC})), Aka(2, 9, 1, AkaOfSubset({AT_RES, AT_MAC})),
              [code |-> 2, id |-> 7, m |-> "identity", data |-> D(11, 71)],
              [code |-> 2, id |-> 8, m |-> "expanded", vid |-> 10415, vtype |-> << 0, 0, 0, 3 >>, data |-> D(9, 73)],
              [code |-> 1, id |-> 7, m |-> "identity", data |-> D(3, 72)] >>
EapSteps(o) == IF o.op = "load" THEN << Step("eapobj_decode", PropId, FALSE, [wire |-> EncEap(EapVals[o.v])], [panic |-> FALSE, err |-> FALSE, eap |-> EapVals[o.v]]) >>
               ELSE << Step("eapobj_encode", PropId, FALSE, [x |-> 0], [panic |-> FALSE, err |-> FALSE, wire |-> EncEap(EapVals[o.v])]) >>

\* ---- ikesa: value v = (nonce, shared secret, SPIs); one suite per run
Su == LET e == << 128, 192, 256 >> a == << "md5", "sha1", "sha256" >> IN Suite(e[(Seed % 3) + 1], a[((Seed \div 3) % 3) + 1], a[((Seed \div 9) % 3) + 1])
\* neighbouring values differ in ONE input only -- 1 -> 2 the shared secret, 2 -> 3 the nonces, 3 -> 4 the SPIs -- (a derivation that
\* recognises "the same exchange" by some of its inputs keeps stale keys for the others); 1 and 4 differ in everything
NonceIx(v)  == << 1, 1, 2, 2 >>[v]
SecretIx(v) == << 1, 2, 2, 2 >>[v]
SpiIx(v)    == << 1, 1, 1, 2 >>[v]
SaNonce(v)  == FillT("seeded", 16 * NonceIx(v) + 8, 40 + NonceIx(v))
SaSecret(v) == FillT("seeded", 256, 50 + SecretIx(v))
SaSpi(v)    == << D(8, SpiIx(v)), D(8, 10 + SpiIx(v)) >>
Px(v) == "L" \o ToString(v)
\* number of steps before history position i (loads are one step, uses six)
RECURSIVE StepsBefore(_)
StepsBefore(i) == IF i <= 1 THEN 0 ELSE StepsBefore(i - 1) + (IF ops[i - 1].op = "load" THEN 1 ELSE 6)
StepNo(i) == StepsBefore(i) + 1          \* index of the first step of position i: sa_probe; +4 is the protect step
\* position-dependent names so that two uses of the same value in one history do not clash
SaSteps(o, i) ==
  IF o.op = "load"
    THEN << IF \E j \in 1..(i - 1) : ops[j].op = "load"
              THEN IkeRederiveStep(PropId, Px(o.v), "K", "K", Su, 14, SaNonce(o.v), SaSecret(o.v), SaSpi(o.v)[1], SaSpi(o.v)[2])
              ELSE Step("ike_derive", PropId, FALSE,
                        [name |-> "K", suite |-> Su, grp |-> 14, via |-> "str", nonce |-> SaNonce(o.v), secret |-> SaSecret(o.v), spii |-> SaSpi(o.v)[1], spir |-> SaSpi(o.v)[2]]
                          @@ ProbeArgsP(Px(o.v), Su), IkeKeyExpectP(Px(o.v), Su)) >>
    ELSE LET k == IkeKeyRecP(Px(o.v), Su) x == IkeKeyExpectP(Px(o.v), Su) pn == "P" \o ToString(i)
             m == Msg((i % 5) + 1, << Rep("N"), [k |-> "NONCE", data |-> D(20 + i, i)] >>) IN
         << Step("sa_probe", PropId, FALSE, [sa |-> "K"] @@ ProbeArgsP(Px(o.v), Su),
                 [panic |-> FALSE, p_prf_d |-> x.p_prf_d, p_integ_i |-> x.p_integ_i, p_integ_r |-> x.p_integ_r, p_prf_i |-> x.p_prf_i, p_prf_r |-> x.p_prf_r,
                  p_ct_i |-> x.p_ct_i, p_ct_r |-> x.p_ct_r]),
            \* two Child SAs from nonces of the same length and other contents (the caller reuses its nonce buffer)
            ChildStep(PropId, "K", "C" \o ToString(i), Su.prf, k.sk_d, FillT("seeded", 32, 9 + i), 256, "sha1"),
            ChildStep(PropId, "K", "D" \o ToString(i), Su.prf, k.sk_d, FillT("seeded", 32, 90 + i), 256, "sha1"),
            SaNew(pn, Su, k),
            ProtectStep(PropId, "K", (i % 2 = 0), m, "system"),
            UnprotectStep(PropId, pn, ~(i % 2 = 0), Ref(StepNo(i) + 4, "wire"), "nil", AcceptExp(m)) >>

RECURSIVE AllSteps(_)
AllSteps(i) == IF i > Len(ops) THEN << >>
               ELSE (CASE Kind = "msg" -> MsgSteps(ops[i]) [] Kind = "eap" -> EapSteps(ops[i]) [] OTHER -> SaSteps(ops[i], i)) \o AllSteps(i + 1)
SaDefs == LET vs == { ops[j].v : j \in { q \in 1..Len(ops) : ops[q].op = "load" } } IN
          IF Kind # "ikesa" THEN << >>
          ELSE (IF 1 \in vs THEN IkeKeyDefsP(Px(1), Su, SaNonce(1), SaSecret(1), Lit(SaSpi(1)[1]), Lit(SaSpi(1)[2])) ELSE << >>)
            \o (IF 2 \in vs THEN IkeKeyDefsP(Px(2), Su, SaNonce(2), SaSecret(2), Lit(SaSpi(2)[1]), Lit(SaSpi(2)[2])) ELSE << >>)
            \o (IF 3 \in vs THEN IkeKeyDefsP(Px(3), Su, SaNonce(3), SaSecret(3), Lit(SaSpi(3)[1]), Lit(SaSpi(3)[2])) ELSE << >>)
            \o (IF 4 \in vs THEN IkeKeyDefsP(Px(4), Su, SaNonce(4), SaSecret(4), Lit(SaSpi(4)[1]), Lit(SaSpi(4)[2])) ELSE << >>)
Vec == VectorD("objhist_" \o Kind, SaDefs, AllSteps(1))

Init == OH!Init
Next == OH!Next
\* a history is worth a replay when it cannot be extended or ends in a use that follows at least two loads
Interesting == /\ Len(ops) >= 2 /\ ops[Len(ops)].op = "use"
               /\ (Len(ops) = MaxOps \/ Cardinality({ j \in 1..Len(ops) : ops[j].op = "load" }) >= 2)
Emit == Interesting => PrintT(ToJson(Vec))
Sound == OH!AsFresh
=============================================================================
