------------------------------ MODULE Transforms ------------------------------
(***************************************************************************)
(* C11.  The algorithm registry and the algorithm <-> transform mapping as *)
(* finite functions, written from the RFCs (RFC 7296 3.3.2, RFC 3602,      *)
(* RFC 2403/2404/4868, RFC 2409/3526, RFC 4303 ESN).                       *)
(***************************************************************************)
EXTENDS CodecLife, Terms

Kinds == {"encr", "encrk", "integ", "integk", "prf", "dh", "esn"}
TypeOfKind(k) == CASE k \in {"encr", "encrk"} -> 1 [] k = "prf" -> 2 [] k \in {"integ", "integk"} -> 3 [] k = "dh" -> 4 [] k = "esn" -> 5
Advertised(k) ==
  CASE k \in {"encr", "encrk"} -> {"aes-cbc-128", "aes-cbc-192", "aes-cbc-256"}
    [] k \in {"integ", "integk", "prf"} -> {"md5", "sha1", "sha256"}
    [] k = "dh" -> {"modp-2", "modp-14"}
    [] k = "esn" -> {"esn-off", "esn-on"}
AesBits(n) == CASE n = "aes-cbc-128" -> 128 [] n = "aes-cbc-192" -> 192 [] n = "aes-cbc-256" -> 256
AesName(b) == CASE b = 128 -> "aes-cbc-128" [] b = 192 -> "aes-cbc-192" [] b = 256 -> "aes-cbc-256"

T(tt, tid, attr, at, av, avl) == [c |-> tt, tt |-> tt, tid |-> tid, attr |-> attr, at |-> at, av |-> av, avl |-> avl]
ToTransform(k, n) ==
  CASE k \in {"encr", "encrk"} -> T(1, 12, "tv", 14, AesBits(n), << >>)
    [] k \in {"integ", "integk"} -> T(3, IntegId(n), "none", 0, 0, << >>)
    [] k = "prf" -> T(2, PrfId(n), "none", 0, 0, << >>)
    [] k = "dh" -> T(4, IF n = "modp-2" THEN 2 ELSE 14, "none", 0, 0, << >>)
    [] k = "esn" -> T(5, IF n = "esn-on" THEN 1 ELSE 0, "none", 0, 0, << >>)

FromTransform(k, t) ==
  CASE k \in {"encr", "encrk"} -> IF t.tid = 12 /\ t.attr = "tv" /\ t.at = 14 /\ t.av \in {128, 192, 256} THEN AesName(t.av) ELSE "unsupported"
    [] k \in {"integ", "integk"} -> CASE t.tid = 1 -> "md5" [] t.tid = 2 -> "sha1" [] t.tid = 12 -> "sha256" [] OTHER -> "unsupported"
    [] k = "prf" -> CASE t.tid = 1 -> "md5" [] t.tid = 2 -> "sha1" [] t.tid = 5 -> "sha256" [] OTHER -> "unsupported"
    [] k = "dh" -> CASE t.tid = 2 -> "modp-2" [] t.tid = 14 -> "modp-14" [] OTHER -> "unsupported"
    [] k = "esn" -> CASE t.tid = 0 -> "esn-off" [] t.tid = 1 -> "esn-on" [] OTHER -> "unsupported"

\* lengths the defining RFCs prescribe
AlgInfo(k, n) ==
  CASE k \in {"encr", "encrk"} -> [keylen |-> AesBits(n) \div 8]
    [] k = "integ" -> [keylen |-> IntegKeyLen(n), outlen |-> IcvLen(n)]
    [] k = "integk" -> [keylen |-> IntegKeyLen(n)]
    [] k = "prf" -> [keylen |-> PrfLen(n), outlen |-> PrfLen(n)]
    [] OTHER -> << >>

\* design-level: the mapping is a bijection on the advertised set
RoundTripHolds == \A k \in Kinds : \A n \in Advertised(k) : FromTransform(k, ToTransform(k, n)) = n

ToStep(k, n) == Step("alg_to_transform", "C11", FALSE, [kind |-> k, name |-> n],
                     [panic |-> FALSE, err |-> FALSE, tr |-> ToTransform(k, n), fresh |-> TRUE] @@ AlgInfo(k, n))
\* (a PRF / integrity / DH / ESN transform that carries an attribute it has no use for: the property demands neither that the
\*  attribute is ignored nor that the transform is refused -- either the algorithm its identifier names, or "unsupported")
FromStep(k, t, wire) ==
  LET n == FromTransform(k, t)
      free == k \notin {"encr", "encrk"} /\ t.attr # "none" /\ n # "unsupported" IN
  Step("transform_to_alg", "C11", FALSE, [kind |-> k, tr |-> t, wire |-> wire],
       IF free THEN [panic |-> FALSE, alg |-> [oneof |-> << n, "unsupported" >>]]
       ELSE [panic |-> FALSE, alg |-> n] @@ (IF n = "unsupported" THEN << >> ELSE AlgInfo(k, n)))
=============================================================================
