INIT Init
NEXT Next
CONSTANTS
  CopyOnDecode = TRUE
  EncodeFresh = TRUE
  ProtectKeepsPayloads = TRUE
  MaxOps = 6
INVARIANTS DecodedStable EncodePure EncodeDeterministic ProtectFootprint
CHECK_DEADLOCK FALSE
