------------------------------- MODULE PadLaw -------------------------------
(***************************************************************************)
(* Unbounded version of the size arithmetic behind C10 (and the pad-length *)
(* guard of C04), over ALL plaintext lengths, ciphertext lengths and       *)
(* recovered pad-length octets -- the generation modules enumerate lengths *)
(* 0..4096 and ciphertexts of 0..96 octets only.                           *)
(*   Encrypt: a plaintext of n octets is followed by pad octets and the    *)
(*   octet `pad`, pad chosen so that the whole is a multiple of the block  *)
(*   size; the result is IV | blocks.  SizeLaw: total = 16 + 16 k with     *)
(*   n < 16 k <= n + 256.                                                  *)
(*   Decrypt: total octets arrive, the last decrypted octet is v; the      *)
(*   guard admits the input iff total >= 32, total - 16 is a multiple of   *)
(*   16 and v + 1 <= total - 16; an admitted input is cut at               *)
(*   total - 16 - (v + 1), which then lies inside the decrypted text.      *)
(* Knobs: PadRule "min" (what the code does), "any" (any legal pad length, *)
(* what an independent peer may do), "offbyone" (16 - n mod 16: must       *)
(* fail); GuardRule "plain" (against the decrypted text), "cipher"         *)
(* (against the ciphertext length: must fail), "block" (against the block  *)
(* size: sound but refuses legal pad lengths -- AcceptsLegal must fail).   *)
(* Checked with Apalache:  apalache-mc check --length=0 --inv=Inv          *)
(***************************************************************************)
EXTENDS Integers

CONSTANTS
  \* @type: Str;
  PadRule,
  \* @type: Str;
  GuardRule

VARIABLES
  \* @type: Int;
  n,        \* plaintext length
  \* @type: Int;
  pad,      \* pad length chosen by the sender
  \* @type: Int;
  total,    \* ciphertext length (IV included) that arrives
  \* @type: Int;
  v         \* recovered pad-length octet

Block == 16
LegalPad(len, p) == p >= 0 /\ p <= 255 /\ (len + p + 1) % Block = 0
ChosenPad(len, p) == CASE PadRule = "min"      -> p = Block - 1 - (len % Block)
                       [] PadRule = "offbyone" -> p = Block - (len % Block)
                       [] OTHER                -> LegalPad(len, p)
EncLen(len, p) == Block + len + p + 1

Admit(t, o) == /\ t >= 2 * Block /\ (t - Block) % Block = 0
               /\ CASE GuardRule = "plain"  -> o + 1 <= t - Block
                    [] GuardRule = "cipher" -> o + 1 <= t
                    [] OTHER                -> o + 1 <= Block

Init == /\ n \in Nat /\ pad \in Int /\ ChosenPad(n, pad)
        /\ total \in Nat /\ v \in 0..255
Next == UNCHANGED << n, pad, total, v >>

\* C10: size law of every encryption, for every plaintext length
SizeLaw == LET body == n + pad + 1 IN          \* body = 16 k
             body % Block = 0 /\ EncLen(n, pad) = Block + body /\ n < body /\ body <= n + 256
\* C10 / C04: whatever arrives, an admitted input is cut inside the decrypted text (no slice out of range)
CutInside == Admit(total, v) => 0 <= total - Block - (v + 1) /\ total - Block - (v + 1) <= total - Block
\* C06: what an independent sender may legally produce is admitted (pad octet = its pad length, any legal one)
AcceptsLegal == LegalPad(n, pad) => Admit(EncLen(n, pad), pad)
Inv == SizeLaw /\ CutInside /\ (PadRule # "offbyone" => AcceptsLegal)
=============================================================================
