------------------------------- MODULE HeapLife -------------------------------
(***************************************************************************)
(* C20.  Who owns which octets.  Abstract memory: a buffer is a store with *)
(* a version counter (every write by its owner bumps it); a message field  *)
(* either owns a private copy (remembers the version it copied) or aliases *)
(* a store (its value is whatever the store holds now).                    *)
(*   Decode   allocates private copies for all payload fields (knob        *)
(*            CopyOnDecode); hdr.PayloadBytes aliases the input -- the     *)
(*            documented exception, excluded from the observation.         *)
(*   Encode   only reads the message and returns a fresh store (knob       *)
(*            EncodeFresh); the message must not reference it.             *)
(*   Protect  replaces the message's payload list and header bookkeeping   *)
(*            only; the caller's original payload objects AND the storage  *)
(*            of the container the message was built from stay intact      *)
(*            (knob ProtectKeepsPayloads).                                 *)
(*   Every buffer an Encode returned and the caller still holds stays as   *)
(*   returned whatever is encoded later (knob OutputsDistinct: no pooled   *)
(*   or reused output storage), and encoding a message that came out of    *)
(*   Decode -- edited by the caller or not -- never writes into the        *)
(*   receive buffer it was decoded from (knob EncodeLeavesInput).          *)
(* The histories TLC explores here are printed by Gen_Heap and replayed    *)
(* on real buffers and messages.                                           *)
(***************************************************************************)
EXTENDS Naturals, Sequences

CONSTANTS CopyOnDecode, EncodeFresh, ProtectKeepsPayloads, OutputsDistinct, EncodeLeavesInput, MaxOps
VARIABLES inver,    \* version of the receive buffer (0 = as received)
          dec,      \* decoded message: [alias |-> BOOLEAN, ver |-> Nat] or [alias |-> FALSE, ver |-> 99] when absent
          hasdec,
          srcver,   \* version of the source message's own payload octets (0 = as built)
          outver,   \* version of the buffer returned by the last Encode
          outalias, \* the source message references the returned buffer
          hasout,
          encs,     \* sequence of "what an encoding returned" (srcver at that time)
          prot,     \* the source message has been protected (its payload list is now the Encrypted payload)
          helds,    \* per buffer returned so far: number of writes by anybody but the caller since it was returned
          inlib,    \* number of writes into the receive buffer by the library
          ops
vars == << inver, dec, hasdec, srcver, outver, outalias, hasout, encs, prot, helds, inlib, ops >>

Init == inver = 0 /\ dec = [alias |-> FALSE, ver |-> 0] /\ hasdec = FALSE /\ srcver = 0 /\ outver = 0 /\ outalias = FALSE
        /\ hasout = FALSE /\ encs = << >> /\ prot = FALSE /\ helds = << >> /\ inlib = 0 /\ ops = << >>

Op(o) == ops' = Append(ops, o) /\ Len(ops) < MaxOps

\* Decode / Unprotect of the receive buffer as it is now
Decode(how) == /\ Op(how)
               /\ dec' = [alias |-> ~CopyOnDecode, ver |-> inver] /\ hasdec' = TRUE
               /\ UNCHANGED << inver, srcver, outver, outalias, hasout, encs, prot, helds, inlib >>
\* the caller overwrites / reuses the receive buffer
ScribbleIn == Op("scribble_in") /\ inver' = inver + 1 /\ UNCHANGED << dec, hasdec, srcver, outver, outalias, hasout, encs, prot, helds, inlib >>
\* what happens to the buffers returned earlier when another one is produced
Returned(h) == IF OutputsDistinct THEN h ELSE [i \in 1..Len(h) |-> h[i] + 1]
\* Encode of the source message
Encode == /\ ~prot /\ Op("encode") /\ hasout' = TRUE /\ outver' = 0 /\ outalias' = ~EncodeFresh
          /\ encs' = Append(encs, srcver)
          /\ helds' = Append(Returned(helds), 0)
          /\ UNCHANGED << inver, dec, hasdec, srcver, prot, inlib >>
\* Encode of the DECODED message after the caller put one more payload in front (its own object, its own container)
EncodeDec == /\ hasdec /\ Op("encode_dec") /\ helds' = Append(Returned(helds), 0)
             /\ inlib' = (IF EncodeLeavesInput THEN inlib ELSE inlib + 1)
             /\ UNCHANGED << inver, dec, hasdec, srcver, outver, outalias, hasout, encs, prot >>
\* the caller writes into the returned buffer
ScribbleOut == /\ hasout /\ Op("scribble_out") /\ outver' = outver + 1
               /\ srcver' = (IF outalias THEN srcver + 1 ELSE srcver)
               /\ UNCHANGED << inver, dec, hasdec, outalias, hasout, encs, prot, helds, inlib >>
\* Protect: payload list replaced by the Encrypted payload; the original payload objects must survive
Protect == /\ ~prot /\ Op("protect") /\ srcver' = (IF ProtectKeepsPayloads THEN srcver ELSE srcver + 1) /\ prot' = TRUE
           \* it returns a datagram too: one more buffer in the caller's hands, which the (now protected) message must not reference
           /\ hasout' = TRUE /\ outver' = 0 /\ outalias' = ~EncodeFresh /\ helds' = Append(Returned(helds), 0)
           /\ UNCHANGED << inver, dec, hasdec, encs, inlib >>
Observe == Op("observe") /\ UNCHANGED << inver, dec, hasdec, srcver, outver, outalias, hasout, encs, prot, helds, inlib >>

Next == Decode("decode") \/ Decode("unprotect") \/ ScribbleIn \/ Encode \/ EncodeDec \/ ScribbleOut \/ Protect \/ Observe

DecodedValue == IF dec.alias THEN inver ELSE dec.ver
\* ---- C20
DecodedStable       == hasdec => DecodedValue = dec.ver
EncodePure          == srcver = 0
EncodeDeterministic == \A i, j \in 1..Len(encs) : encs[i] = encs[j]
ProtectFootprint    == srcver = 0
HeldOutputsIntact   == \A i \in 1..Len(helds) : helds[i] = 0
InputOnlyByCaller   == inlib = 0
=============================================================================
