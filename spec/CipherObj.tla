------------------------------ MODULE CipherObj ------------------------------
(***************************************************************************)
(* C10.  The AES-CBC transform object.  State: the cipher objects created  *)
(* so far (name -> key length), the set of IVs ever drawn, and the random  *)
(* source (number of reads served; the read that fails, if any).           *)
(*   NewCrypto(bits, len)  accepts exactly len = bits / 8                  *)
(*   Encrypt(o, n)         draws padding and a NEW IV from the source      *)
(*                         (knob PerCallIV: an object that cached its IV   *)
(*                         would repeat it); result length 16 + 16k with   *)
(*                         n < 16k <= n + 256; if a read fails: an error   *)
(*                         and no ciphertext                               *)
(*   Decrypt(o, L, v)      L octets whose recovered pad-length octet is v: *)
(*                         error if L < 32, (L-16) mod 16 # 0 or v + 1 >   *)
(*                         L - 16; otherwise the first L - 16 - v - 1      *)
(*                         plaintext octets                                *)
(***************************************************************************)
EXTENDS Naturals, Sequences, FiniteSets, TLC

CONSTANTS PerCallIV, MaxCalls, FailPoints
Names == {"a", "b"}
Bits == {128, 192, 256}
KeyLens == {0, 15, 16, 17, 24, 32, 33, 64}
PtLens == {0, 15, 16, 17}

VARIABLES objs,     \* name -> bits, 0 = absent
          ivs,      \* IV ids handed out so far (sequence, to see repeats)
          reads, failAt, last, ops
vars == << objs, ivs, reads, failAt, last, ops >>

Init == objs = [n \in Names |-> 0] /\ ivs = << >> /\ reads = 0 /\ failAt \in FailPoints \cup {99} /\ last = [r |-> "none", len |-> 0] /\ ops = << >>
Op(o) == ops' = Append(ops, o) /\ Len(ops) < MaxCalls

NewCrypto(n, bits, len) ==
  /\ objs[n] = 0 /\ Op([op |-> "new", n |-> n, bits |-> bits, len |-> len])
  /\ IF len * 8 = bits THEN objs' = [objs EXCEPT ![n] = bits] /\ last' = [r |-> "ok", len |-> 0]
                       ELSE objs' = objs /\ last' = [r |-> "error", len |-> 0]
  /\ UNCHANGED << ivs, reads, failAt >>

PadFor(n) == 16 - ((n + 1) % 16) + 1 - 1        \* a padding choice satisfying the size law (any k with n < 16k <= n + 256 is legal)
CtLen(n) == 16 + (n + 1 + ((16 - ((n + 1) % 16)) % 16))
\* Encrypt reads the source twice (padding, IV) -- in either order; a failure at either read is an error
Encrypt(n, ptl) ==
  /\ objs[n] # 0 /\ Op([op |-> "encrypt", n |-> n, ptl |-> ptl])
  /\ LET failed == failAt \in {reads, reads + 1} IN
     /\ reads' = IF failed THEN failAt + 1 ELSE reads + 2
     /\ IF failed THEN last' = [r |-> "error", len |-> 0] /\ ivs' = ivs
        ELSE /\ last' = [r |-> "ok", len |-> CtLen(ptl)]
             /\ ivs' = Append(ivs, IF PerCallIV THEN << n, Len(ivs) + 1 >> ELSE << n, 0 >>)
  /\ UNCHANGED << objs, failAt >>

Decrypt(n, L, v) ==
  /\ objs[n] # 0 /\ Op([op |-> "decrypt", n |-> n, L |-> L, v |-> v])
  /\ last' = IF L < 32 \/ (L - 16) % 16 # 0 \/ v + 1 > L - 16 THEN [r |-> "error", len |-> 0] ELSE [r |-> "ok", len |-> L - 16 - v - 1]
  /\ UNCHANGED << objs, ivs, reads, failAt >>

Next == \/ \E n \in Names, b \in Bits, l \in KeyLens : NewCrypto(n, b, l)
        \/ \E n \in Names, p \in PtLens : Encrypt(n, p)
        \/ \E n \in Names, L \in {0, 16, 31, 32, 33, 48}, v \in {0, 15, 16, 31, 255} : Decrypt(n, L, v)

FreshIV == \A i, j \in 1..Len(ivs) : i # j => ivs[i] # ivs[j]
SizeLaw == (last.r = "ok" /\ Len(ops) > 0 /\ ops[Len(ops)].op = "encrypt") =>
              LET n == ops[Len(ops)].ptl k == (last.len - 16) \div 16 IN (last.len - 16) % 16 = 0 /\ n < 16 * k /\ 16 * k <= n + 256
KeySizeExact == \A n \in Names : objs[n] # 0 => objs[n] \in Bits
NoResultOnFailure == last.r = "error" => last.len = 0
View == << objs, ivs, reads, failAt, last, Len(ops) >>
=============================================================================
