------------------------------- MODULE Gen_Keys -------------------------------
(* C07: GenerateKeyForIKESA for all 27 suites x both groups x nonce / secret / SPI pools, algorithm infos taken by   *)
(* name and through the SA's own proposal; two-party behaviours of SALife (with NewIKESAKey on the responder side,  *)
(* wire-decoded proposal) ending in protected exchanges across the two objects; C08 child derivations on both ends; *)
(* C09 random-source failures at every read of NewIKESAKey.                                                         *)
EXTENDS KeyLife, Pools
VARIABLES stage, su, g, variant

SuiteSeq27 == LET e == << 128, 192, 256 >> a == << "md5", "sha1", "sha256" >> IN
              [i \in 1..27 |-> Suite(e[((i - 1) % 3) + 1], a[(((i - 1) \div 3) % 3) + 1], a[((i - 1) \div 9) + 1])]
NonceLens == << 1, 4, 16, 32, 64, 512 >>
SecretLens == << 1, 128, 256, 512 >>
SpiPairs == << << Zeros(8), Zeros(8) >>, << Ramp(8, 1), Ramp(8, 101) >>, << Const(8, 255), Const(8, 255) >>, << D(8, 1), D(8, 2) >> >>

\* variant v in 1..48: (nonce length, secret length, via); 49..: two-party and fault variants
NV == 48
NonceOfV(v) == FillT("seeded", NonceLens[((v - 1) % 6) + 1], Seed + v)
SecretOfV(v) == FillT(IF v % 5 = 0 THEN "ff" ELSE "seeded", SecretLens[(((v - 1) \div 6) % 4) + 1], Seed + 2 * v)
ViaOfV(v) == IF ((v - 1) \div 24) = 0 THEN "str" ELSE "transform"
SpiOfV(v) == SpiPairs[(v % 4) + 1]

SingleVector(s, grp, v) ==
  LET n == NonceOfV(v) x == SecretOfV(v) sp == SpiOfV(v) IN
  VectorD("ikekeys", IkeKeyDefs(s, n, x, Lit(sp[1]), Lit(sp[2])),
          << IkeDeriveStep("C07", "K", s, grp, ViaOfV(v), n, x, sp[1], sp[2]) >>)

\* two parties (SALife behaviour I_secret, R_newsa, I_finish, children, then traffic both ways)
XI == FillT("seeded", 256, Seed + 77)
TwoPartyVector(s, grp, seedR) ==
  LET \* Ni | Nr at both ends of its range and in between (the responder's path, NewIKESAKey, takes the same nonces as the direct derivation)
      nonce == FillT("seeded", << 512, 64, 1, 511, 512, 256, 32 >>[(seedR % 7) + 1], Seed + 5)
      sp == SpiPairs[2]
      pubR == RefT(2, "pub", DhLen(grp))
      shared == SharedT(grp, XI, pubR)
      keys == IkeKeyRec(s)
      m1 == Msg(1, << Rep("IDi"), Rep("AUTH"), Rep("SA"), Rep("TSi"), Rep("TSr") >>)
      m2 == Msg(2, << Rep("N") >>) IN
  VectorD("twoparty", IkeKeyDefs(s, nonce, shared, Lit(sp[1]), Lit(sp[2])),
    << Step("dh_pub", "C09", FALSE, [grp |-> grp, x |-> XI], [panic |-> FALSE, pub |-> PubT(grp, XI)]),
       NewIkeSaStep("C07", "R", s, grp, PubT(grp, XI), nonce, sp[1], sp[2], [mode |-> "det", seed |-> seedR]),
       Step("dh_shared", "C09", FALSE, [grp |-> grp, x |-> XI, peer |-> Ref(2, "pub")], [panic |-> FALSE, shared |-> shared]),
       IkeDeriveStep("C07", "I", s, grp, "transform", nonce, Ref(3, "shared"), sp[1], sp[2]),
       SaProbeStep("C07", "R", s),
       ProtectStep("C07", "I", TRUE, m1, "system"),
       UnprotectStep("C07", "R", FALSE, Ref(6, "wire"), "nil", AcceptExp(m1)),
       ProtectStep("C07", "R", FALSE, m2, "system"),
       UnprotectStep("C07", "I", TRUE, Ref(8, "wire"), "pre", AcceptExp(m2)),
       ChildStep("C08", "I", "CI", s.prf, keys.sk_d, FillT("seeded", 48, 9), 256, "sha1"),
       ChildStep("C08", "R", "CR", s.prf, keys.sk_d, FillT("seeded", 48, 9), 256, "sha1"),
       ChildStep("C08", "R", "CS", s.prf, keys.sk_d, FillT("ramp", 16, 3), 128, "none"),
       \* an empty nonce on SA objects that went through the library's own derivation
       ChildStep("C08", "I", "CE", s.prf, keys.sk_d, FillT("zero", 0, 0), 192, "md5"),
       ChildStep("C08", "R", "CF", s.prf, keys.sk_d, FillT("zero", 0, 0), 192, "md5") >>)

\* the peer's public value is 1: the shared secret is 1, i.e. 127 / 255 leading zero octets that must be preserved in SKEYSEED
LeadingZeroVector(s, grp) ==
  LET nonce == FillT("seeded", 40, Seed + 6) sp == SpiPairs[4]
      shared == LPad(Lit(<< 1 >>), DhLen(grp)) IN
  VectorD("leadingzero", IkeKeyDefs(s, nonce, shared, Lit(sp[1]), Lit(sp[2])),
    << NewIkeSaStep("C07", "R", s, grp, Lit(<< 1 >>), nonce, sp[1], sp[2], [mode |-> "det", seed |-> 5]),
       SaProbeStep("C07", "R", s),
       Step("dh_shared", "C09", FALSE, [grp |-> grp, x |-> XI, peer |-> Lit(<< 1 >>)], [panic |-> FALSE, shared |-> shared]) >>)

FaultVector(s, grp, k) ==
  VectorD("newsa_fault", << >>,
    << Step("dh_calc", "C09", FALSE, [grp |-> grp, peer |-> PubT(grp, XI), rand |-> [mode |-> "system"]], [panic |-> FALSE, err |-> FALSE, repeat |-> FALSE]),
       Step("dh_calc", "C09", FALSE, [grp |-> grp, peer |-> PubT(grp, XI), rand |-> [mode |-> "system"]], [panic |-> FALSE, err |-> FALSE, repeat |-> FALSE]),
       Step("dh_calc", "C09", FALSE, [grp |-> 16 - grp, peer |-> PubT(grp, XI), rand |-> [mode |-> "system"]], [panic |-> FALSE, err |-> FALSE, repeat |-> FALSE]),
       Step("new_ike_sa", "C09", FALSE, [name |-> "", suite |-> s, prop |-> IkeProp(s, grp), wire |-> FALSE, peer |-> PubT(grp, XI), nonce |-> FillT("seeded", 32, 1),
                                         spii |-> Zeros(8), spir |-> Zeros(8), rand |-> [mode |-> "system"]], [panic |-> FALSE, err |-> FALSE, repeat |-> FALSE]),
       Step("new_ike_sa", "C09", FALSE, [name |-> "", suite |-> s, prop |-> IkeProp(s, grp), wire |-> FALSE, peer |-> PubT(grp, XI), nonce |-> FillT("seeded", 32, 1),
                                         spii |-> Zeros(8), spir |-> Zeros(8), rand |-> [mode |-> "system"]], [panic |-> FALSE, err |-> FALSE, repeat |-> FALSE]),
       \* after successful exchanges with this peer value the source fails: still an error and no key
       Step("dh_calc", "C09", FALSE, [grp |-> grp, peer |-> PubT(grp, XI), rand |-> [mode |-> "fail", seed |-> 1, failat |-> 0]],
            [panic |-> FALSE, err |-> TRUE, haspub |-> FALSE]), Step("dh_calc", "C09", FALSE, [grp |-> grp, peer |-> PubT(grp, XI), rand |-> [mode |-> "det", seed |-> 40 + k]], [panic |-> FALSE, err |-> FALSE]),
       \* the same octets in short reads give the same exponent, hence the same public value and shared secret
       Step("dh_calc", "C09", FALSE, [grp |-> grp, peer |-> PubT(grp, XI), rand |-> [mode |-> "det", seed |-> 40 + k, chunk |-> 3 + 20 * k]],
            [panic |-> FALSE, err |-> FALSE, pub |-> Ref(7, "pub"), shared |-> Ref(7, "shared")]),
       Step("dh_calc", "C09", FALSE, [grp |-> grp, peer |-> PubT(grp, XI), rand |-> [mode |-> "fail", seed |-> 40 + k, chunk |-> 50, failat |-> 1 + (k % 4)]],
            [panic |-> FALSE, err |-> TRUE, haspub |-> FALSE]),
       NewIkeSaFailStep("C09", s, grp, PubT(grp, XI), FillT("seeded", 32, 1), Zeros(8), Zeros(8), [mode |-> "fail", seed |-> 1, failat |-> k]),
       Step("dh_calc", "C09", FALSE, [grp |-> grp, peer |-> PubT(grp, XI), rand |-> [mode |-> "fail", seed |-> 2, failat |-> k]],
            IF k = 0 THEN [panic |-> FALSE, err |-> TRUE, haspub |-> FALSE, faultok |-> TRUE] ELSE [panic |-> FALSE, faultok |-> TRUE]) >>)

Init == stage = 0 /\ su = 0 /\ g = 0 /\ variant = 0
Next ==
  \/ stage = 0 /\ stage' = 1 /\ su' \in 1..27 /\ g' \in {2, 14} /\ variant' = 0
  \/ stage = 1 /\ stage' = 2 /\ UNCHANGED << su, g >>
     /\ variant' \in { v \in 1..(NV + 9) : \/ Thorough
                                         \/ (v <= NV /\ (v + su + g) % 4 = 0)
                                         \/ (v = NV + 1 /\ (su + g) % 3 = 0) \/ (v = NV + 2 /\ su % 9 = 1)
                                         \/ (v > NV + 2 /\ v <= NV + 8 /\ su = ((v + g) % 27) + 1)
                                         \/ (v = NV + 9 /\ (su + g) % 4 = 0) }
  \/ stage = 2 /\ UNCHANGED << stage, su, g, variant >>
Vec == IF variant <= NV THEN SingleVector(SuiteSeq27[su], g, variant)
       ELSE IF variant <= NV + 2 THEN TwoPartyVector(SuiteSeq27[su], g, variant + su)
       ELSE IF variant <= NV + 8 THEN FaultVector(SuiteSeq27[su], g, variant - NV - 3)        \* fail at read 0..5
       ELSE LeadingZeroVector(SuiteSeq27[su], g)
Emit == stage = 2 => PrintT(ToJson(Vec))
Sound == TRUE
=============================================================================
