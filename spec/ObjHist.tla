------------------------------- MODULE ObjHist -------------------------------
(***************************************************************************)
(* History independence of the library's long-lived objects.               *)
(*                                                                         *)
(* A caller keeps some objects for a long time and uses them again: a      *)
(* message object is emptied (Payloads.Reset) and filled for the next      *)
(* message, an EAP object receives the next packet through Unmarshal, an   *)
(* IKE SA key object goes through GenerateKeyForIKESA a second time (the   *)
(* IKE_SA_INIT exchange repeated after COOKIE / INVALID_KE_PAYLOAD).       *)
(* Every property that says "the encoding of a message", "the keys of an   *)
(* SA", "decoding a packet" is a statement about the CURRENT content of    *)
(* the object; nothing an earlier load left behind may show.               *)
(*                                                                         *)
(* Abstractly: an object holds the value of its last load plus, if the     *)
(* mechanism CleanLoad is missing, a residue of the earlier loads.  A use  *)
(* observes both.  AsFresh says the residue is empty, i.e. every use       *)
(* behaves as on an object that was loaded once with the last value.       *)
(* Gen_ObjHist prints every history of this machine for the three object   *)
(* kinds with concrete values, and the replayer runs them on ONE real      *)
(* object per history.                                                     *)
(***************************************************************************)
EXTENDS Naturals, Sequences, FiniteSets

CONSTANTS NVals,      \* loads put one of the values 1..NVals into the object
          MaxOps,
          CleanLoad   \* mechanism: a load replaces everything an earlier load left in the object
VARIABLES cur,        \* value of the last load (0: none yet)
          residue,    \* values of earlier loads still visible in the object
          ops         \* the history: << [op |-> "load", v |-> ..] | [op |-> "use", v |-> .., extra |-> ..] >>
vars == << cur, residue, ops >>

Init == cur = 0 /\ residue = {} /\ ops = << >>
Load(v) == /\ Len(ops) < MaxOps
           /\ cur' = v
           /\ residue' = (IF CleanLoad \/ cur = 0 THEN {} ELSE (residue \cup {cur}) \ {v})
           /\ ops' = Append(ops, [op |-> "load", v |-> v, extra |-> {}])
Use == /\ Len(ops) < MaxOps /\ cur # 0
       /\ ops' = Append(ops, [op |-> "use", v |-> cur, extra |-> residue])
       /\ UNCHANGED << cur, residue >>
Next == Use \/ \E v \in 1..NVals : Load(v)
Spec == Init /\ [][Next]_vars

LastLoadBefore(i) == LET js == { j \in 1..(i - 1) : ops[j].op = "load" } IN ops[CHOOSE j \in js : \A k \in js : k <= j].v
\* every use sees exactly the value of the last load
AsFresh == \A i \in 1..Len(ops) : ops[i].op = "use" => ops[i].extra = {} /\ ops[i].v = LastLoadBefore(i)
=============================================================================
