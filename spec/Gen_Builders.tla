----------------------------- MODULE Gen_Builders -----------------------------
(* C19: TLC explores builder programs (state machine over the container being built) and prints each as a vector. *)
EXTENDS Builders, Pools
CONSTANT MaxTop
VARIABLES cont, calls, failed

C(fn, rep, rec) == rec @@ [fn |-> fn, rep |-> rep]
BigN == IF Thorough THEN {65519, 65527, 65528, 65531, 65532, 65535, 65536, 70000} ELSE {65527, 65528}

TopCalls ==
  { C("Notification", r, [proto |-> p, ntype |-> nt, spi |-> D(sn, 1), data |-> D(n, 2)]) :
      r \in {FALSE}, p \in {0, 255}, nt \in {1, 65535}, sn \in {0, 255}, n \in {0, 3} }
  \cup { C("Notification", TRUE, [proto |-> 3, ntype |-> 16393, spi |-> D(4, 3), data |-> D(5, 4)]),
         C("Notification", FALSE, [proto |-> 1, ntype |-> 2, spi |-> D(256, 3), data |-> << >>]),
         C("Notification", FALSE, [proto |-> 1, ntype |-> 2, spi |-> << >>, data |-> D(65528, 4)]),
         C("Certificate", TRUE, [enc |-> 4, data |-> D(9, 5)]), C("Certificate", FALSE, [enc |-> 255, data |-> D(1, 6)]),
         C("Certificate", FALSE, [enc |-> 0, data |-> D(65531, 6)]),
         C("KeyExchange", TRUE, [grp |-> 14, data |-> D(8, 7)]), C("KeyExchange", FALSE, [grp |-> 65535, data |-> D(1, 8)]),
         C("IdentificationInitiator", TRUE, [idt |-> 2, data |-> D(5, 9)]), C("IdentificationInitiator", FALSE, [idt |-> 255, data |-> D(1, 10)]),
         C("IdentificationResponder", TRUE, [idt |-> 1, data |-> D(4, 11)]),
         C("Authentication", TRUE, [meth |-> 2, data |-> D(20, 12)]), C("Authentication", FALSE, [meth |-> 0, data |-> D(1, 13)]),
         C("Nonce", TRUE, [data |-> D(16, 14)]), C("Nonce", FALSE, [data |-> << >>]), C("Nonce", FALSE, [data |-> D(65531, 15)]), C("Nonce", FALSE, [data |-> D(65532, 15)]),
         C("Configuration", TRUE, [cft |-> 1]), C("Configuration", FALSE, [cft |-> 255]),
         C("TrafficSelectorInitiator", TRUE, [x |-> 0]), C("TrafficSelectorResponder", TRUE, [x |-> 0]),
         C("SecurityAssociation", TRUE, [x |-> 0]),
         C("DeletePayload", TRUE, [proto |-> 3, spisz |-> 4, num |-> 2, spis |-> << D(4, 16), D(4, 17) >>]),
         C("DeletePayload", FALSE, [proto |-> 1, spisz |-> 0, num |-> 0, spis |-> << >>]),
         C("DeletePayload", FALSE, [proto |-> 2, spisz |-> 4, num |-> 1, spis |-> << << 255, 255, 255, 255 >> >>]),
         \* count and list disagree: the payload holds what it was given (encoding such a payload is refused, not patched up)
         C("DeletePayload", FALSE, [proto |-> 3, spisz |-> 4, num |-> 3, spis |-> << D(4, 18), D(4, 19) >>]),
         C("DeletePayload", FALSE, [proto |-> 3, spisz |-> 4, num |-> 1, spis |-> << D(4, 18), D(4, 19), D(4, 20) >>]),
         C("DeletePayload", FALSE, [proto |-> 3, spisz |-> 4, num |-> 0, spis |-> << D(4, 18) >>]),
         C("EAP", TRUE, [code |-> 3, id |-> 7]), C("EAP", FALSE, [code |-> 4, id |-> 255]),
         C("EAPSuccess", TRUE, [id |-> 9]), C("EAPfailure", TRUE, [id |-> 0]), C("EAPSuccess", FALSE, [id |-> 255]),
         C("EAP5GStart", TRUE, [id |-> 3]), C("EAP5GStart", FALSE, [id |-> 255]),
         C("EAP5GNAS", TRUE, [id |-> 4, nas |-> D(7, 18)]), C("EAP5GNAS", FALSE, [id |-> 0, nas |-> D(1, 19)]),
         C("EAP5GNAS", FALSE, [id |-> 1, nas |-> D(65519, 20)]), C("EAP5GNAS", FALSE, [id |-> 1, nas |-> D(65520, 20)]),
         C("EAP5GNAS", FALSE, [id |-> 1, nas |-> D(65535, 20)]), C("EAP5GNAS", FALSE, [id |-> 1, nas |-> D(65536, 20)]),
         C("NotifyNAS_IP4_ADDRESS", TRUE, [ip |-> << 10, 0, 0, 1 >>]), C("NotifyNAS_IP4_ADDRESS", FALSE, [ip |-> << 255, 255, 255, 255 >>]),
         C("NotifyNAS_IP4_ADDRESS", FALSE, [ip |-> << 0, 0, 0, 0 >>]),
         C("NotifyUP_IP4_ADDRESS", TRUE, [ip |-> << 192, 168, 127, 1 >>]), C("NotifyUP_IP4_ADDRESS", FALSE, [ip |-> << 1, 2, 3, 4 >>]),
         C("NotifyNAS_TCP_PORT", TRUE, [port |-> 20000]), C("NotifyNAS_TCP_PORT", FALSE, [port |-> 1]), C("NotifyNAS_TCP_PORT", FALSE, [port |-> 65535]) }
  \cup { C("EAPExpanded", v = 10415, [code |-> 1 + (v % 2), id |-> v % 256, vid |-> v, vtype |-> vt, data |-> D(v % 7, 28)]) :
           v \in {0, 10415, 65535, 65536, 123456, 16777215}, vt \in { << 0, 0, 0, 3 >>, << 255, 255, 255, 255 >> } }
  \cup { C("KeyExchange", FALSE, [grp |-> 2, data |-> D(n, 21)]) : n \in BigN }
  \cup { C("Encrypted", FALSE, [next |-> nx, data |-> D(32, 22)]) : nx \in {0, 33} }
  \cup { C("Notify5G_QOS_INFO", n = 2 /\ dscpi, [pdu |-> IF dcsi THEN 255 ELSE 5, qfis |-> [i \in 1..n |-> (i * 3) % 64], dcsi |-> dcsi, dscpi |-> dscpi, dscp |-> IF dcsi THEN 46 ELSE 255]) :
           n \in {0, 1, 2, 250, 251, 252, 255, 256, 300}, dcsi \in BOOLEAN, dscpi \in BOOLEAN }

\* a message is created from the container (and keeps its payload list), the container is reset and built on again
MidCalls == { C("NewMessage", TRUE, [ispi |-> Ramp(8, 9), rspi |-> D(8, 31), xt |-> 37, response |-> TRUE, initiator |-> FALSE, mid |-> << 0, 0, 0, 7 >>]),
              C("Reset", TRUE, [x |-> 0]) }
NMid == Cardinality({ i \in 1..Len(calls) : calls[i].fn \in {"NewMessage", "Reset"} })

SubCalls ==
  { C("ConfigurationAttribute", FALSE, [t |-> a, v |-> D(n, 23)]) : a \in {1, 32767}, n \in {0, 4} }
  \cup { C("IndividualTrafficSelector", FALSE, Sel4(6, 256, 1, 24)), C("IndividualTrafficSelector", FALSE, Sel6(255, 65535, 0, 25)) }
  \cup { C("Proposal", FALSE, [num |-> 1, proto |-> 1, spi |-> << >>]), C("Proposal", FALSE, [num |-> 255, proto |-> 3, spi |-> D(8, 26)]) }
  \cup { C("Transform", FALSE, TrTV(1, 12, 14, 256)), C("Transform", FALSE, TrNone(3, 12)), C("Transform", FALSE, TrTLV(2, 65535, 32767, D(3, 27))),
         C("Transform", FALSE, TrNone(5, 1)) }

SubCount(p) == CASE p.k = "CP" -> Len(p.attrs) [] p.k \in {"TSi", "TSr"} -> Len(p.sel)
                 [] p.k = "SA" -> IF Len(p.props) = 0 THEN 0 ELSE Len(p.props) + Len(p.props[Len(p.props)].tr) [] OTHER -> 0
Complete(p) == CASE p.k = "CP" -> Len(p.attrs) >= 1 [] p.k \in {"TSi", "TSr"} -> Len(p.sel) >= 1
                 [] p.k = "SA" -> Len(p.props) >= 1 /\ \A i \in 1..Len(p.props) : Len(p.props[i].tr) >= 1 [] OTHER -> TRUE
MaxSub == 2      \* (3 makes the thorough tier print > 6 GB of programs; the argument sweeps cover wide arguments instead)
SubAllowed(c) ==
  LET p == Last(cont) IN
  CASE c.fn = "Proposal" -> Len(p.props) < 1 /\ (IF Len(p.props) = 0 THEN TRUE ELSE Len(p.props[Len(p.props)].tr) >= 1)
    [] c.fn = "Transform" -> Len(p.props[Len(p.props)].tr) < 2
    [] OTHER -> SubCount(p) < MaxSub

IsBig(c) == \/ "data" \in DOMAIN c /\ Len(c.data) > 2000
            \/ "nas" \in DOMAIN c /\ Len(c.nas) > 2000
\* ---- argument sweeps: one sub-builder call with an argument from a wide pool on a minimal container (no interleaving with other
\* calls, so the pools can be wide: every small TLV length, every transform type, the TV corner values, attribute / SPI lengths)
SweepTransforms ==
  { TrTLV(tt, tid, at, D(n, 40 + n)) : tt \in {1, 2}, tid \in {12, 65535}, at \in {14, 32767}, n \in (1..9) \cup {255, 256, 1000} }
  \cup { TrTV(tt, 12, at, av) : tt \in {1, 5}, at \in {0, 14, 32767}, av \in {0, 1, 2, 255, 256, 65535} }
  \cup { TrNone(tt, tid) : tt \in 1..5, tid \in {0, 1, 255, 256, 65535} }
  \* every transform type x every identifier 0..31 x a Key Length attribute in both formats / no attribute (the full product: a builder
  \* that knows which ciphers have fixed keys must still put in what it is given)
  \cup { TrTV(tt, tid, 14, 64 * (1 + (tid % 4))) : tt \in 1..5, tid \in 0..31 }
  \cup { TrTLV(tt, tid, 14, << 0, 128 >>) : tt \in 1..5, tid \in 0..31 }
  \cup { TrNone(tt, tid) : tt \in 1..5, tid \in 0..31 }
SweepPrograms ==
  { << C("SecurityAssociation", TRUE, [x |-> 0]), C("Proposal", FALSE, [num |-> 1, proto |-> 1, spi |-> << >>]), C("Transform", FALSE, t) >> : t \in SweepTransforms }
  \cup { << C("SecurityAssociation", TRUE, [x |-> 0]), C("Proposal", FALSE, [num |-> n % 256, proto |-> 3, spi |-> D(n, 41)]), C("Transform", FALSE, TrNone(1, 12)) >> :
            n \in (0..9) \cup {16, 247, 248, 255} }
  \cup { << C("Configuration", TRUE, [cft |-> 2]), C("ConfigurationAttribute", FALSE, [t |-> a, v |-> D(n, 42)]) >> : a \in {0, 1, 16384, 32767}, n \in (0..9) \cup {16, 255, 256} }
  \cup { << C(f, TRUE, [x |-> 0]), C("IndividualTrafficSelector", FALSE, IF six THEN Sel6(pr, sp, ep, 43) ELSE Sel4(pr, sp, ep, 44)) >> :
            f \in {"TrafficSelectorInitiator", "TrafficSelectorResponder"}, six \in BOOLEAN, pr \in {0, 255}, sp \in {0, 65535}, ep \in {0, 1, 65535} }

\* ---- scalar arguments one at a time over their WHOLE range (8-bit) or over the powers of two and their neighbours (16-bit): a builder
\* puts its arguments into the payload whatever their values -- zero included, also where a flag says "this value is specified"
EdgeProgs(e, cl) ==
  { << C("Nonce", FALSE, [data |-> e]) >>, << C("KeyExchange", FALSE, [grp |-> 2, data |-> e]) >>, << C("Certificate", FALSE, [enc |-> 4, data |-> e]) >>,
    << C("IdentificationInitiator", FALSE, [idt |-> 2, data |-> e]) >>, << C("Authentication", FALSE, [meth |-> 2, data |-> e]) >>,
    << C("Notification", FALSE, [proto |-> 3, ntype |-> 16393, spi |-> e, data |-> e]) >>, << C("EAP5GNAS", FALSE, [id |-> 1, nas |-> e]) >>,
    << C("Configuration", TRUE, [cft |-> 1]), C("ConfigurationAttribute", FALSE, [t |-> 1, v |-> e]) >>,
    << C("EAPExpanded", FALSE, [code |-> 2, id |-> 5, vid |-> 10415, vtype |-> << 0, 0, 0, 3 >>, data |-> e]) >>,
    << C("DeletePayload", FALSE, [proto |-> 3, spisz |-> 4, num |-> 3, spis |-> << Edge(cl, 4, 1), Edge(cl, 4, 1), Edge(cl, 4, 2) >>]) >> }
Pow16 == UNION { {q - 1, q, q + 1} : q \in {2, 4, 16, 128, 256, 1024, 4096, 32768} } \cup {0, 65534, 65535}
Qos(pdu, qfis, dcsi, dscpi, dscp) == C("Notify5G_QOS_INFO", FALSE, [pdu |-> pdu, qfis |-> qfis, dcsi |-> dcsi, dscpi |-> dscpi, dscp |-> dscp])
ScalarSweeps ==
  { << Qos(5, << 9 >>, v % 2 = 0, TRUE, v) >> : v \in 0..255 } \cup { << Qos(v, << 1, 2 >>, v % 3 = 0, v % 2 = 0, 46) >> : v \in 0..255 }
  \cup { << Qos(1, << v >>, FALSE, FALSE, v) >> : v \in 0..255 } \cup { << Qos(2, << 0, v, 0 >>, TRUE, TRUE, 0) >> : v \in {0, 1, 63, 64, 128, 255} }
  \cup { << C("Notification", FALSE, [proto |-> v, ntype |-> 16384 + v, spi |-> D(v % 5, 3), data |-> D(v % 3, 4)]) >> : v \in 0..255 }
  \cup { << C("Notification", FALSE, [proto |-> 1, ntype |-> v, spi |-> << >>, data |-> << 7 >>]) >> : v \in Pow16 }
  \cup { << C("Certificate", FALSE, [enc |-> v, data |-> D(1 + (v % 4), 6)]) >> : v \in 0..255 }
  \cup { << C("IdentificationInitiator", FALSE, [idt |-> v, data |-> D(1 + (v % 4), 9)]) >> : v \in 0..255 }
  \cup { << C("IdentificationResponder", FALSE, [idt |-> v, data |-> D(1 + (v % 4), 11)]) >> : v \in 0..255 }
  \cup { << C("Authentication", FALSE, [meth |-> v, data |-> D(1 + (v % 4), 12)]) >> : v \in 0..255 }
  \cup { << C("KeyExchange", FALSE, [grp |-> v, data |-> D(2, 7)]) >> : v \in Pow16 }
  \cup { << C("Configuration", FALSE, [cft |-> v]), C("ConfigurationAttribute", FALSE, [t |-> v * 128 + (v % 128), v |-> D(v % 3, 23)]) >> : v \in 0..255 }
  \cup { << C("EAP", FALSE, [code |-> 1 + (v % 4), id |-> v]) >> : v \in 0..255 }
  \cup { << C("EAPSuccess", FALSE, [id |-> v]) >> : v \in 0..255 } \cup { << C("EAPfailure", FALSE, [id |-> v]) >> : v \in 0..255 }
  \cup { << C("EAP5GStart", FALSE, [id |-> v]) >> : v \in 0..255 } \cup { << C("EAP5GNAS", FALSE, [id |-> v, nas |-> D(1 + (v % 5), 18)]) >> : v \in 0..255 }
  \cup { << C("DeletePayload", FALSE, [proto |-> v, spisz |-> 4, num |-> 1, spis |-> << D(4, 16) >>]) >> : v \in 0..255 }
  \cup { << C("NotifyNAS_TCP_PORT", FALSE, [port |-> v]) >> : v \in Pow16 \ {0} }        \* (the property says: non-zero ports)
  \cup { << C(f, FALSE, [ip |-> a]) >> : f \in {"NotifyNAS_IP4_ADDRESS", "NotifyUP_IP4_ADDRESS"}, a \in Addr4s \cup { << 1, 0, 0, 0 >>, << 0, 0, 1, 0 >>, << 128, 128, 128, 128 >> } }
  \cup { << C("Encrypted", FALSE, [next |-> v, data |-> D(16, 22)]) >> : v \in 0..255 }
  \cup { << C("SecurityAssociation", TRUE, [x |-> 0]), C("Proposal", FALSE, [num |-> v, proto |-> 255 - v, spi |-> D(v % 9, 26)]), C("Transform", FALSE, TrTV(1 + (v % 5), v * 257, 14, v)) >> : v \in 0..255 }
  \* selectors whose addresses have contents a builder might look into, every protocol id
  \cup { << C(f, TRUE, [x |-> 0]), C("IndividualTrafficSelector", FALSE, sl[1]) >> : f \in {"TrafficSelectorInitiator", "TrafficSelectorResponder"}, sl \in { l \in SelAddrLists : Len(l) = 1 } }
  \cup { << C("TrafficSelectorInitiator", TRUE, [x |-> 0]), C("IndividualTrafficSelector", FALSE, IF v % 2 = 0 THEN Sel4(v, v * 256, v, 44) ELSE Sel6(v, v, v * 256 + v, 43)) >> : v \in 0..255 }
  \* octet-string arguments with edge contents
  \cup UNION { EdgeProgs(Edge(cl, n, n), cl) : cl \in EdgeSet, n \in {1, 5} }

\* the Reset of each sub-container in the middle of building its payload (fixed programs: in the free exploration they multiply the
\* programs a hundredfold), with a payload in front that must stay as it is
SR(l, k) == C("SubReset", FALSE, [lvl |-> l, c |-> k])
ResetPrograms ==
  LET N0 == C("Nonce", TRUE, [data |-> D(16, 14)])
      P1 == C("Proposal", FALSE, [num |-> 1, proto |-> 1, spi |-> << >>])
      P2 == C("Proposal", FALSE, [num |-> 2, proto |-> 3, spi |-> D(4, 26)])
      CA1(a, n) == C("ConfigurationAttribute", FALSE, [t |-> a, v |-> D(n, 23)]) IN
  { << N0, C("Configuration", TRUE, [cft |-> 1]), CA1(1, 4), CA1(32767, 0), SR("attrs", 0), CA1(8, 16) >>,
    << N0, C("Configuration", TRUE, [cft |-> 2]), CA1(1, 4), SR("attrs", 0), CA1(1, 4), CA1(2, 4) >>,
    << N0, C("TrafficSelectorInitiator", TRUE, [x |-> 0]), C("IndividualTrafficSelector", FALSE, Sel4(6, 256, 1, 24)), SR("sel", 0),
       C("IndividualTrafficSelector", FALSE, Sel6(255, 65535, 0, 25)) >>,
    << N0, C("TrafficSelectorResponder", TRUE, [x |-> 0]), C("IndividualTrafficSelector", FALSE, Sel6(17, 1, 2, 25)),
       C("IndividualTrafficSelector", FALSE, Sel4(6, 256, 1, 24)), SR("sel", 0), C("IndividualTrafficSelector", FALSE, Sel4(0, 0, 65535, 24)) >>,
    << N0, C("SecurityAssociation", TRUE, [x |-> 0]), P1, C("Transform", FALSE, TrTV(1, 12, 14, 256)), SR("props", 0), P2, C("Transform", FALSE, TrTV(1, 12, 14, 128)) >>,
    << N0, C("SecurityAssociation", TRUE, [x |-> 0]), P1, C("Transform", FALSE, TrTV(1, 12, 14, 256)), C("Transform", FALSE, TrNone(3, 12)), SR("tr", 1),
       C("Transform", FALSE, TrTV(1, 12, 14, 192)) >>,
    << N0, C("SecurityAssociation", TRUE, [x |-> 0]), P1, C("Transform", FALSE, TrTV(1, 12, 14, 256)), C("Transform", FALSE, TrNone(3, 12)), SR("tr", 3),
       C("Transform", FALSE, TrNone(3, 2)), C("Transform", FALSE, TrNone(2, 5)), SR("tr", 2), C("Transform", FALSE, TrNone(2, 2)),
       C("Transform", FALSE, TrNone(4, 14)), SR("tr", 4), C("Transform", FALSE, TrNone(4, 2)), C("Transform", FALSE, TrNone(5, 1)), SR("tr", 5), C("Transform", FALSE, TrNone(5, 0)) >> }

\* MANY transforms of one type in a proposal (five, six, nine), the types in ascending, descending and alternating order of the calls: every
\* call adds exactly one transform to the list of its type and leaves the other lists as they are (a proposal offering six ciphers is
\* ordinary; the free exploration stops at two sub-elements)
TrN(tt, i) == IF tt = 1 THEN TrTV(1, 12, 14, << 128, 192, 256 >>[(i % 3) + 1]) ELSE TrNone(tt, i)
Calls(tts) == [i \in 1..Len(tts) |-> C("Transform", FALSE, TrN(tts[i], i))]
ManyOrders == { << 1, 1, 1, 1, 1, 2 >>, << 2, 1, 1, 1, 1, 1, 1 >>, << 1, 1, 1, 1, 1, 1, 2, 2, 2, 2, 2, 3, 3, 3, 3, 3, 4, 4, 4, 4, 4, 5, 5 >>,
                << 5, 4, 3, 2, 1, 1, 1, 1, 1, 1, 2, 2, 2, 2, 2 >>, << 5, 5, 4, 4, 4, 4, 4, 4, 3, 2, 1 >>, << 1, 2, 1, 2, 1, 2, 1, 2, 1, 2, 3, 4, 3, 4, 3, 4, 3, 4, 3, 4 >>,
                << 3, 3, 3, 3, 3, 3, 3, 3, 3, 4, 1 >>, << 4, 4, 4, 4, 4, 5, 5, 5, 5, 5, 5 >> }
ManyPrograms == { << C("Nonce", TRUE, [data |-> D(16, 14)]), C("SecurityAssociation", TRUE, [x |-> 0]), C("Proposal", FALSE, [num |-> 1, proto |-> 1, spi |-> << >>]) >> \o Calls(o) : o \in ManyOrders }
                \cup { << C("SecurityAssociation", TRUE, [x |-> 0]), C("Proposal", FALSE, [num |-> 1, proto |-> 3, spi |-> D(4, 26)]) >> \o Calls(o)
                         \o << C("Proposal", FALSE, [num |-> 2, proto |-> 3, spi |-> D(4, 27)]) >> \o Calls(o) : o \in { << 1, 1, 1, 1, 1, 3 >>, << 3, 1, 1, 1, 1, 1 >> } }

\* every repeatable builder called, the payload it made edited by the caller, and the builder called again with the same arguments:
\* the second payload is what the arguments say (no object or storage shared between the payloads of two calls)
EditPrograms == { << c, C("Edit", TRUE, [x |-> 0]), c >> : c \in { d \in TopCalls : d.rep } }

Init == \/ cont = << >> /\ calls = << >> /\ failed = FALSE
        \/ calls \in SweepPrograms \cup ScalarSweeps \cup EditPrograms \cup ResetPrograms \cup ManyPrograms /\ cont = Final(<< >>, calls) /\ failed = TRUE
        \/ calls \in { << C("HeaderSweep", TRUE, [x |-> k]) >> : k \in 1..NHeaderSweeps } /\ cont = << >> /\ failed = TRUE
Build(c) == /\ CallEnabled(cont, c)
            /\ cont' = ApplyCall(cont, c).cont
            /\ calls' = Append(calls, c)
            /\ failed' = (~ApplyCall(cont, c).ok \/ IsBig(c))     \* no extension after a refused call or a maximum-size argument
Next ==
  \/ \E c \in TopCalls : /\ ~failed /\ Len(cont) < (IF NMid = 0 THEN MaxTop ELSE 1)
                         /\ (IF Len(cont) = 0 THEN (IF Len(calls) = 0 THEN TRUE ELSE calls[Len(calls)].fn = "Reset" /\ c.rep) ELSE Complete(Last(cont)) /\ c.rep)
                         /\ Build(c)
  \/ \E c \in MidCalls : /\ ~failed /\ NMid < 2 /\ Len(cont) = 1 /\ calls[1].rep
                         /\ (IF Len(cont) = 0 THEN FALSE ELSE Complete(Last(cont)))
                         /\ (IF c.fn = "Reset" THEN (IF Len(calls) = 0 THEN FALSE ELSE calls[Len(calls)].fn = "NewMessage") ELSE NMid = 0)
                         /\ Build(c)
  \* (a message holds POINTERS to its payloads: sub-builder calls on a payload a message already references change that
  \*  message by design, so none is made between NewMessage and Reset)
  \/ \E c \in SubCalls : /\ ~failed /\ NMid # 1
                         /\ (IF Len(cont) = 0 THEN FALSE ELSE CallEnabled(cont, c) /\ SubAllowed(c))
                         /\ Build(c)

NM == [ispi |-> Ramp(8, 1), rspi |-> D(8, 30), xt |-> 35, response |-> (Len(calls) % 2 = 0), initiator |-> (Len(calls) % 3 # 0), mid |-> << 0, 0, 1, Len(calls) >>]
IsHeaderSweep == Len(calls) = 1 /\ calls[1].fn = "HeaderSweep"
Emit == Len(calls) > 0 /\ (IF Len(cont) = 0 THEN TRUE ELSE Complete(Last(cont)))
          => PrintT(ToJson(IF IsHeaderSweep THEN HeaderSweepVector(calls[1].x) ELSE BuilderVector(calls, NM)))
Sound == IsHeaderSweep \/ cont = Final(<< >>, calls)
\* C19 at the design level: a call appends at most one payload and never touches an earlier one
IsReset == Len(calls') > 0 /\ calls'[Len(calls')].fn = "Reset"
EarlierUntouched == [][IsReset \/ \A i \in 1..(Len(cont) - 1) : cont'[i] = cont[i]]_<< cont, calls, failed >>
AtMostOne == [][IsReset \/ Len(cont') \in {Len(cont), Len(cont) + 1}]_<< cont, calls, failed >>
=============================================================================
