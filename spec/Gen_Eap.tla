------------------------------- MODULE Gen_Eap -------------------------------
(* C14 (EAP codec and EAP-AKA' framing), C15 (AT_MAC on built and on received packets, any attribute order), C16 (PRF').                 *)
EXTENDS EapLife, KeyLife, Pools
CONSTANT Kinds       \* which vector kinds this run prints (a subset of AllKinds)
VARIABLES stage, kind, i
AllKinds == {"eap", "code", "set", "sender", "receiver", "prf", "unknown"}
ASSUME Kinds \subseteq AllKinds

Perms(n) == { f \in [1..n -> 1..n] : \A a, b \in 1..n : a # b => f[a] # f[b] }
Permute(s, f) == [j \in 1..Len(s) |-> s[f[j]]]

EapPool == SetToSeqAny(EapAkas \cup EapOthers
                       \cup { [code |-> c, id |-> c, m |-> "identity", data |-> D(3, c)] : c \in {1, 2} }
                       \cup { [code |-> c, id |-> 255 - c, m |-> "none"] : c \in {3, 4} })
EapVector(d) ==
  LET w == EncEap(d) IN
  Vector("eap", << Step("eap_encode", "C14", TRUE, [eap |-> d], ExpectEapEncode(d)),
                   Step("eap_decode", "C14", FALSE, [wire |-> Ref(1, "wire"), caps |-> TRUE], [panic |-> FALSE, capdiff |-> FALSE, err |-> FALSE, eap |-> d]),
                   Step("eap_decode", "C14", FALSE, [wire |-> w, caps |-> FALSE], ExpectEapDecode(w)),
                   Step("eap_reencode", "C12", FALSE, [wire |-> w], ExpectEapReencode(w)),
                   \* C14 itself: a decoded, unmodified packet encodes to the well-formed packet again (same octets, so padding and lengths intact)
                   Step("eap_reencode", "C14", FALSE, [wire |-> w], ExpectEapReencode(w)) >>)

\* decoded packets with several attributes the library has no name for: they cannot be built through the setter, only
\* decoded; encoding them repeatedly must give identical octets and decode/encode must be stable (C12 C20)
UnknownAttrVector(j) ==
  LET ua(t, n) == [t |-> t, rsv |-> 0, v |-> D(n, t), pad |-> << >>]
      w == [code |-> 1, id |-> 40 + j, m |-> "aka", sub |-> 1, rsv |-> 0,
            attrs |-> << AkaAttrPlain(AV(AT_RAND, 16)), ua(135, 2), ua(136 + j, 6), ua(13, 2), ua(12, 2), ua(200, 10), AkaAttrPlain(AV(AT_MAC, 16)) >>]
      b == EncEapW(w) IN
  Vector("eap_unknown", [q \in 1..6 |-> Step("eap_reencode", IF q % 2 = 0 THEN "C12" ELSE "C20", FALSE, [wire |-> b], [stable |-> TRUE] @@ ExpectEapReencode(b))])

\* all codes with and without data (only the codes of the domain carry an expectation beyond "no crash")
CodeVector(c) ==
  LET dn == [code |-> c, id |-> (c * 7) % 256, m |-> "none"]
      di == [code |-> c, id |-> (c * 11) % 256, m |-> "identity", data |-> D(4, c)] IN
  Vector("eapcode", << Step("eap_decode", "C14", FALSE, [wire |-> EncEapW(dn), caps |-> TRUE], ExpectEapDecode(EncEapW(dn))),
                       Step("eap_decode", "C14", FALSE, [wire |-> EncEapW(di), caps |-> TRUE], ExpectEapDecode(EncEapW(di))),
                       Step("eap_encode", "C14", TRUE, [eap |-> dn], IF EapEncodable(dn) THEN ExpectEapEncode(dn) ELSE NoCrash),
                       Step("eap_encode", "C14", TRUE, [eap |-> di], IF EapEncodable(di) THEN ExpectEapEncode(di) ELSE NoCrash) >>)

\* the setter offered every size 0..300 for one attribute type
SetterVector(t) ==
  Vector("akaset", [n \in 1..301 |->
     LET v == D(n - 1, t) ok == AkaValueOk([t |-> t, v |-> v]) IN
     \* C14 demands refusal of wrong sizes only for the fixed-size attributes RAND, AUTN, MAC (16), KDF (2), RES (4..16)
     Step("aka_set", "C14", FALSE, [t |-> t, v |-> v],
          IF ok THEN [panic |-> FALSE, err |-> FALSE, got |-> v]
          ELSE IF t \in AkaFixed16 \cup {AT_KDF, AT_RES} THEN [panic |-> FALSE, err |-> TRUE] ELSE [panic |-> FALSE])])

\* ---- C15
KautPool == << FillT("seeded", 32, 1), FillT("seeded", 0, 0), FillT("seeded", 1, 2), FillT("seeded", 16, 3), FillT("seeded", 33, 4),
               FillT("seeded", 64, 5), FillT("seeded", 65, 6), FillT("ff", 32, 0) >>
MacT(key, octets) == Slice(Hmac("sha256", key, Lit(MacInput(octets))), 0, 16)
WithMac(d, v) == [d EXCEPT !.attrs = AttrMap(Append(SelectSeq(d.attrs, LAMBDA a : a.t # AT_MAC), [t |-> AT_MAC, v |-> v]), << >>)]
\* operations a caller may perform on the packet object before asking for the code: it must not depend on them
OpsPool == << << >>, << "marshal" >>, << "calc" >>, << "setmac_result", "marshal" >>, << "setmac_garbage", "marshal" >>,
              << "marshal", "calc", "marshal" >>, << "calc", "setmac_result", "marshal", "marshal" >>, << "reencode" >>, << "setmac_result", "reencode", "marshal" >> >>
SenderVector(d, ki) ==
  LET key == KautPool[ki]
      sent == EncEap(WithMac(d, Zeros(16)))                   \* the packet as it goes on the wire, MAC field zeroed
      stale == WithMac(d, Const(16, 170)) IN
  Vector("akamac_sender",
    [j \in 1..Len(OpsPool) |->
       Step("aka_mac", "C15", FALSE, [eap |-> IF j % 2 = 0 THEN stale ELSE d, key |-> key, ops |-> OpsPool[j], site |-> "sender-ops" \o ToString(j)],
            [panic |-> FALSE, err |-> FALSE, mac |-> MacT(key, sent), again |-> TRUE, stable |-> TRUE, keysens |-> TRUE])])

\* receiver side: W-form packets from the independent encoder in a given attribute order, with given reserved octets;
\* the transmitted MAC is the code over the wire octets; the receiver must obtain it -- and another one if an octet or the key differs
ReceiverVector(w, ki, cls) ==
  LET key == KautPool[ki]
      b0 == EncEapW(w)
      mac == MacT(key, b0)
      flipAt == Len(b0) - 1 IN
  Vector("akamac_receiver",
    << Step("aka_mac", "C15", FALSE, [wire |-> b0, key |-> key, site |-> cls], [panic |-> FALSE, err |-> FALSE, mac |-> mac, keysens |-> TRUE]),
       Step("aka_mac", "C15", FALSE, [wire |-> b0, key |-> key, ops |-> << "marshal" >>, site |-> cls \o "-marshalled"], [panic |-> FALSE, err |-> FALSE, mac |-> mac]),
       Step("aka_mac", "C15", FALSE, [wire |-> b0, key |-> key, ops |-> << "calc", "marshal", "calc" >>, site |-> cls \o "-recalc"], [panic |-> FALSE, err |-> FALSE, mac |-> mac]),
       Step("aka_mac", "C15", FALSE, [wire |-> FlipBit(b0, flipAt, 0), key |-> key, site |-> cls \o "-flipped"],
            [panic |-> FALSE, err |-> FALSE, mac |-> MacT(key, FlipBit(b0, flipAt, 0))]),
       Step("aka_mac", "C15", FALSE, [wire |-> b0, key |-> FillT("seeded", 32, 99), site |-> cls \o "-otherkey"],
            [panic |-> FALSE, err |-> FALSE, mac |-> MacT(FillT("seeded", 32, 99), b0)]) >>)

Confusable(n) == [q \in 1..n |-> << 11, 5, 0, 0 >>[((q - 1) % 4) + 1]]
MacBase(j) == CASE j = 1 -> Aka(1, 9, 1, << AV(AT_RAND, 16), AV(AT_AUTN, 16), AV(AT_MAC, 16), AV(AT_KDF_INPUT, 11), AV(AT_KDF, 2) >>)
                [] j = 2 -> Aka(2, 10, 1, << AV(AT_RES, 8), AV(AT_MAC, 16) >>)
                [] j = 3 -> Aka(2, 11, 1, << AV(AT_RES, 5), AV(AT_MAC, 16), AV(AT_CHECKCODE, 20) >>)
                [] j = 4 -> Aka(1, 12, 5, << AV(AT_MAC, 16) >>)
                [] j = 5 -> Aka(1, 13, 1, << AV(AT_RAND, 16), AV(AT_AUTN, 16), AV(AT_RES, 7), AV(AT_MAC, 16) >>)
                \* values that look like structure: words that read as an AT_MAC / AT_RAND attribute header
                [] j = 6 -> Aka(1, 14, 1, << [t |-> AT_RAND, v |-> Confusable(16)], [t |-> AT_AUTN, v |-> Confusable(16)], [t |-> AT_RES, v |-> Confusable(8)], AV(AT_MAC, 16) >>)
ReceiverSet ==
  UNION { LET w == EapPlain(MacBase(j)) n == Len(w.attrs) IN
          { << [w EXCEPT !.attrs = Permute(w.attrs, f)], IF \A a \in 1..(n - 1) : f[a] < f[a + 1] THEN "recv-canonical" ELSE "recv-order" >> : f \in Perms(n) }
          \cup { << [w EXCEPT !.rsv = 513], "recv-hdrrsv" >>, << [w EXCEPT !.rsv = 65280], "recv-hdrrsv" >>,
                 << [w EXCEPT !.attrs = [a \in 1..n |-> IF w.attrs[a].t \in AkaFixed16 THEN [w.attrs[a] EXCEPT !.rsv = 258] ELSE w.attrs[a]]], "recv-rsv" >> }
          : j \in 1..6 }
\* a received packet of more than 4096 octets (larger than any internal read buffer): canonical order, zero reserved octets, five
\* long attributes the library has no name for
BigRecv == LET ua(t, n) == [t |-> t, rsv |-> 0, v |-> D(n, t), pad |-> << >>] IN
           [code |-> 1, id |-> 77, m |-> "aka", sub |-> 1, rsv |-> 0,
            attrs |-> << ua(0, 2), AkaAttrPlain(AV(AT_RAND, 16)), AkaAttrPlain(AV(AT_AUTN, 16)), AkaAttrPlain(AV(AT_MAC, 16)),
                         ua(135, 1018), ua(136, 1018), ua(137, 1018), ua(138, 1018), ua(139, 1018), ua(254, 6), ua(255, 2) >>]   \* both ends of the type space
\* received packets (ascending attribute types, zero reserved octets) holding attributes the library has no setter for -- AT_NOTIFICATION,
\* AT_CLIENT_ERROR_CODE, AT_AUTS, AT_COUNTER, AT_NONCE_S -- and AT_RES / AT_KDF_INPUT values followed by a whole word of zero padding more
\* than needed: the code is over the octets that arrived
OtherRecv ==
  LET ua(t, v) == [t |-> t, rsv |-> 0, v |-> v, pad |-> << >>]
      pk(id, sub, attrs) == [code |-> 1, id |-> id, m |-> "aka", sub |-> sub, rsv |-> 0, attrs |-> attrs]
      wide(t, n, extra) == [t |-> t, rsv |-> 8 * n, v |-> D(n, 60 + t), pad |-> Zeros(PadTo4(4 + n) + extra)]
      \* a value whose length in BITS is no multiple of 8 (RFC 4187 10.8: "length of the AT_RES attribute in bits"): the last octet is used in part
      bits(t, n, k) == [t |-> t, rsv |-> 8 * n - k, v |-> D(n - 1, 60 + t) \o << 128 >>, pad |-> Zeros(PadTo4(4 + n))] IN
  << << pk(80, 12, << AkaAttrPlain(AV(AT_MAC, 16)), ua(12, << 128, 0 >>) >>), "recv-other" >>,
     << pk(81, 12, << AkaAttrPlain(AV(AT_MAC, 16)), ua(12, << 0, 0 >>) >>), "recv-other" >>,
     << pk(82, 14, << AkaAttrPlain(AV(AT_MAC, 16)), ua(22, << 0, 1 >>) >>), "recv-other" >>,
     << pk(83, 4, << ua(4, D(14, 5)), AkaAttrPlain(AV(AT_MAC, 16)) >>), "recv-other" >>,
     << pk(84, 13, << AkaAttrPlain(AV(AT_MAC, 16)), ua(19, << 0, 7 >>), ua(21, D(18, 6)) >>), "recv-other" >>,
     << pk(85, 1, << wide(AT_RES, 8, 4), AkaAttrPlain(AV(AT_MAC, 16)) >>), "recv-widepad" >>,
     << pk(86, 1, << wide(AT_RES, 5, 8), AkaAttrPlain(AV(AT_MAC, 16)) >>), "recv-widepad" >>,
     << pk(88, 1, << bits(AT_RES, 5, 7), AkaAttrPlain(AV(AT_MAC, 16)) >>), "recv-bits" >>,
     << pk(89, 1, << bits(AT_RES, 8, 1), AkaAttrPlain(AV(AT_MAC, 16)) >>), "recv-bits" >>,
     << pk(90, 1, << AkaAttrPlain(AV(AT_RAND, 16)), AkaAttrPlain(AV(AT_AUTN, 16)), AkaAttrPlain(AV(AT_MAC, 16)), bits(AT_KDF_INPUT, 11, 3), AkaAttrPlain([t |-> AT_KDF, v |-> << 0, 1 >>]) >>), "recv-bits" >>,
     << pk(87, 1, << AkaAttrPlain(AV(AT_RAND, 16)), AkaAttrPlain(AV(AT_AUTN, 16)), AkaAttrPlain(AV(AT_MAC, 16)), wide(AT_KDF_INPUT, 7, 4), AkaAttrPlain([t |-> AT_KDF, v |-> << 0, 1 >>]) >>), "recv-widepad" >> >>
ReceiverSeq == SetToSeqAny(ReceiverSet) \o << << BigRecv, "recv-big" >> >> \o OtherRecv

\* ---- C16
KeyLens16 == << 0, 1, 15, 16, 17, 32, 64 >>
IdPool == << FillT("seeded", 0, 0), Lit(<< 48 >>), Lit(<< 54, 50, 48, 56, 57, 51, 48, 48, 48, 48, 48, 48, 48, 48, 49, 64, 119, 108, 97, 110 >>),
             FillT("zero", 8, 0), FillT("ramp", 128, 128), Lit(<< 255, 254, 192, 128, 237, 160, 128 >>), FillT("seeded", 255, 7) >>
\* identities whose first / last octets are white space, NUL, >= 0x80, or which are all letters: S = "EAP-AKA'" | Identity takes the
\* identity as it is (C16: "any octets, not only text")
\* ... and identities that COLLIDE WITH WHAT THE FUNCTION ITSELF PUTS IN FRONT: the label "EAP-AKA'" alone, the label followed by more,
\* the label twice, the label of plain EAP-AKA, the label in another case, a single quote
Label == << 69, 65, 80, 45, 65, 75, 65, 39 >>
LabelIds == << Lit(Label), Lit(Label \o << 54, 50, 48 >>), Lit(Label \o Label), Lit(SubSeq(Label, 1, 7)), Lit(<< 101, 97, 112, 45, 97, 107, 97, 39 >>), Lit(<< 39 >>),
               Lit(Label \o << 0 >>), Lit(<< 0 >> \o Label) >>
EdgeIds == [q \in 1..(2 * Len(EdgeClasses)) |-> Lit(Edge(EdgeClasses[((q - 1) % Len(EdgeClasses)) + 1], IF q <= Len(EdgeClasses) THEN 9 ELSE 2, Seed + q))] \o LabelIds
IdAt(c) == IF c <= Len(IdPool) THEN IdPool[c] ELSE EdgeIds[c - Len(IdPool)]
PrfVector(a, b, c) ==
  LET ik == FillT("seeded", KeyLens16[a], Seed + 1) ck == FillT("ramp", KeyLens16[b], Seed + 2) id == IdAt(c)
      \* a second derivation with inputs of the same lengths and other contents (the caller reuses its buffers), then the first again
      ik2 == FillT("seeded", KeyLens16[a], Seed + 31) ck2 == FillT("seeded", KeyLens16[b], Seed + 32)
      empty == KeyLens16[a] = 0 \/ KeyLens16[b] = 0
      refuse == [panic |-> FALSE, err |-> TRUE, haskeys |-> FALSE] IN
  VectorD("prfprime", IF empty THEN << >> ELSE PrfPrimeDefs(ik, ck, id) \o PrfPrimeDefsP("B", ik2, ck2, id),
    << Step("aka_prf", "C16", FALSE, [ik |-> ik, ck |-> ck, identity |-> id], IF empty THEN refuse ELSE [panic |-> FALSE, err |-> FALSE] @@ PrfPrimeRec),
       Step("aka_prf", "C16", FALSE, [ik |-> ik2, ck |-> ck2, identity |-> id], IF empty THEN refuse ELSE [panic |-> FALSE, err |-> FALSE] @@ PrfPrimeRecP("B")),
       Step("aka_prf", "C16", FALSE, [ik |-> ik, ck |-> ck, identity |-> id], IF empty THEN refuse ELSE [panic |-> FALSE, err |-> FALSE] @@ PrfPrimeRec) >>)

\* the big packet through the plain decoder and the decode / encode chain (C14 C12 C20)
BigEapVector == LET b == EncEapW(BigRecv) IN
  Vector("eap_big", << Step("eap_decode", "C14", FALSE, [wire |-> b, caps |-> TRUE], ExpectEapDecode(b)),
                       Step("eap_reencode", "C12", FALSE, [wire |-> b], [stable |-> TRUE] @@ ExpectEapReencode(b)),
                       Step("eap_reencode", "C20", FALSE, [wire |-> b], [stable |-> TRUE] @@ ExpectEapReencode(b)),
                       Step("eap_reencode", "C14", FALSE, [wire |-> b], [stable |-> TRUE] @@ ExpectEapReencode(b)) >>)
\* a received packet in which attribute types repeat (several AT_KDF offers, RFC 5448 3.2; a repeated AT_RAND): whatever the decoder
\* makes of them, decode / encode settles after one step and repeated encodings agree (C12 C20 C14)
DupVector ==
  LET k(n) == AkaAttrPlain([t |-> AT_KDF, v |-> << 0, n >>])
      w == [code |-> 1, id |-> 44, m |-> "aka", sub |-> 1, rsv |-> 0,
            attrs |-> << AkaAttrPlain(AV(AT_RAND, 16)), AkaAttrPlain([t |-> AT_RAND, v |-> D(16, 99)]), AkaAttrPlain(AV(AT_AUTN, 16)),
                         k(1), k(2), k(3), AkaAttrPlain(AV(AT_KDF_INPUT, 7)), AkaAttrPlain(AV(AT_MAC, 16)) >>]
      b == EncEapW(w) IN
  Vector("eap_dup", [q \in 1..3 |-> Step("eap_reencode", << "C12", "C20", "C14" >>[q], FALSE, [wire |-> b], [stable |-> TRUE] @@ ExpectEapReencode(b))])
\* AT_RES / AT_KDF_INPUT twice in one packet with the SAME length octet and different actual lengths (5 then 8 octets, both three
\* words): no crash, and whatever the decoder makes of it is stable (C04 C12 C20 C14)
DupVector2 ==
  LET w == [code |-> 2, id |-> 45, m |-> "aka", sub |-> 1, rsv |-> 0,
            attrs |-> << AkaAttrPlain([t |-> AT_RES, v |-> D(5, 31)]), AkaAttrPlain([t |-> AT_RES, v |-> D(8, 32)]),
                         AkaAttrPlain([t |-> AT_KDF_INPUT, v |-> D(5, 33)]), AkaAttrPlain([t |-> AT_KDF_INPUT, v |-> D(8, 34)]),
                         AkaAttrPlain([t |-> AT_RES, v |-> D(6, 35)]), AkaAttrPlain(AV(AT_MAC, 16)) >>]
      b == EncEapW(w) IN
  Vector("eap_dup", << Step("eap_decode", "C04", FALSE, [wire |-> b, caps |-> TRUE], ExpectEapDecode(b)) >>
                    \o [q \in 1..3 |-> Step("eap_reencode", << "C12", "C20", "C14" >>[q], FALSE, [wire |-> b], [stable |-> TRUE] @@ ExpectEapReencode(b))])
\* a refused packet leaves nothing behind: four rounds of a packet the decoder must refuse in the middle of its attribute list (a length
\* octet that runs past the end, an attribute cut short), then a well-formed packet, which decodes to its value (C14 C04)
RejectAcceptVector ==
  LET g1 == EncEapW([code |-> 1, id |-> 46, m |-> "aka", sub |-> 1, rsv |-> 0,
                     attrs |-> << AkaAttrPlain(AV(AT_RAND, 16)), AkaAttrPlain(AV(AT_AUTN, 16)), AkaAttrPlain([t |-> AT_KDF, v |-> << 0, 1 >>]),
                                  AkaAttrPlain(AV(AT_KDF_INPUT, 7)), AkaAttrPlain(AV(AT_MAC, 16)) >>])
      g2 == EncEapW([code |-> 2, id |-> 47, m |-> "aka", sub |-> 1, rsv |-> 0, attrs |-> << AkaAttrPlain([t |-> AT_RES, v |-> D(8, 36)]) >>])
      bad1 == [g1 EXCEPT ![10] = 6]                       \* AT_RAND announces six words
      bad2 == [g1 EXCEPT ![Len(g1) - 18] = 9]             \* AT_MAC (the last attribute) announces nine words
      \* (the refused packet is offered ONCE -- caps FALSE: one presentation -- so that exactly one refused call precedes the good one)
      round(bad, good, p) == << Step("eap_decode", p, FALSE, [wire |-> bad, caps |-> FALSE], ExpectEapDecode(bad)),
                                Step("eap_decode", p, FALSE, [wire |-> good, caps |-> TRUE], ExpectEapDecode(good)) >> IN
  Vector("eap_reject_accept", round(bad1, g2, "C14") \o round(bad2, g1, "C04") \o round(bad1, g1, "C14") \o round(bad2, g2, "C04")
                              \o round(bad1, g2, "C04") \o round(bad2, g1, "C14"))
\* EAP-5G (expanded type, vendor 10415, type 3): the vendor data is opaque to the codec; every prefix of a well-formed 5G-NAS
\* request / response (message id, spare, AN-parameters with two entries, NAS length, NAS PDU) and of a 5G-Start must decode to that
\* opaque value -- no crash whatever structure a decoder may look for in it (C04 C14)
Eap5GFull(resp) == IF resp THEN << 2, 0, 0, 7, 1, 2, 9, 9, 3, 1, 5, 0, 4, 126, 0, 65, 1 >> ELSE << 2, 0, 0, 4, 126, 0, 65, 1 >>
Eap5GVector(resp) ==
  LET full == Eap5GFull(resp)
      pk(n) == [code |-> IF resp THEN 2 ELSE 1, id |-> 60 + n, m |-> "expanded", vid |-> 10415, vtype |-> << 0, 0, 0, 3 >>, data |-> Take(full, n)] IN
  Vector("eap5g", [n \in 1..(Len(full) + 1) |->
     LET b == EncEap(pk(n - 1)) IN Step("eap_decode", IF n % 2 = 0 THEN "C04" ELSE "C14", FALSE, [wire |-> b, caps |-> TRUE], ExpectEapDecode(b))])
Count(k) == CASE k = "unknown" -> 14 [] k = "eap" -> Len(EapPool) [] k = "code" -> 256 [] k = "set" -> 7 [] k = "sender" -> Len(EapPool) [] k = "receiver" -> Len(ReceiverSeq)
              [] k = "prf" -> 49 * Len(IdPool) + 2 * Len(EdgeIds)
SetTypes == << AT_RAND, AT_AUTN, AT_RES, AT_MAC, AT_KDF_INPUT, AT_KDF, AT_CHECKCODE >>
Init == stage = 0 /\ kind = "" /\ i = 0
Next == \/ stage = 0 /\ stage' = 1 /\ kind' \in Kinds /\ i' = 0
        \/ stage = 1 /\ stage' = 2 /\ kind' = kind /\ i' \in 1..Count(kind)
        \/ stage = 2 /\ UNCHANGED << stage, kind, i >>
Vec == CASE kind = "unknown" -> IF i = 9 THEN BigEapVector ELSE IF i = 10 THEN DupVector ELSE IF i = 13 THEN DupVector2 ELSE IF i = 14 THEN RejectAcceptVector
                              ELSE IF i >= 11 THEN Eap5GVector(i = 12) ELSE UnknownAttrVector(i)
         [] kind = "eap" -> EapVector(EapPool[i])
         [] kind = "code" -> CodeVector(i - 1)
         [] kind = "set" -> SetterVector(SetTypes[i])
         [] kind = "sender" -> IF i <= 6 THEN SenderVector(MacBase(i), (i % Len(KautPool)) + 1)
                               ELSE IF EapPool[i].m = "aka" THEN SenderVector(EapPool[i], (i % Len(KautPool)) + 1) ELSE Vector("skip", << Step("eap_encode", "C14", TRUE, [eap |-> EapPool[i]], NoCrash) >>)
         [] kind = "receiver" -> ReceiverVector(ReceiverSeq[i][1], (i % 2) + 1, ReceiverSeq[i][2])
         [] OTHER -> IF i <= 49 * Len(IdPool) THEN PrfVector(((i - 1) % 7) + 1, (((i - 1) \div 7) % 7) + 1, ((i - 1) \div 49) + 1)
                     ELSE LET j == i - 49 * Len(IdPool) - 1 IN PrfVector(4 + (j % 2), 4 + ((j \div 2) % 2), Len(IdPool) + (j \div 2) + 1)
Emit == stage = 2 => PrintT(ToJson(Vec))
Sound == stage = 2 /\ kind = "eap" => EapRefSound(EapPool[i])
=============================================================================
