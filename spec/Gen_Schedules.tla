---------------------------- MODULE Gen_Schedules ----------------------------
(* C18 mode (a): program sets for free-running goroutines under the race detector.  Every unordered pair of operation kinds is assigned to *)
(* different goroutines at least once (N = 2), plus mixed sets for N in {3, 8, 64}; GOMAXPROCS in {2, 4, 16}.                             *)
EXTENDS Naturals, Sequences, FiniteSets, TLC, Json
CONSTANTS Thorough, Seed,
          Focus      \* {} = all operation kinds; otherwise only program sets made of these kinds (a check other than C18 running
                     \* the kinds its own property is about: key agreement for C07 / C09)
VARIABLES stage, a, b

Kinds == << "encode", "decode_shared", "protect_unprotect", "ike_derive", "derive_child", "dh", "transforms", "eap", "rand", "new_ike_sa", "strings", "builders", "cipher", "transform_stress", "codec_stress", "eap_stress", "keys_stress", "encode_fail", "rand_stress", "decode_unknown", "reencode_shared", "derive_arena", "reject_then_accept", "decrypt_shared", "reject_proposal" >>
NK == Len(Kinds)
Rep(k, n) == [i \in 1..n |-> k]
Mixed(off, n) == [i \in 1..n |-> Kinds[((i + off) % NK) + 1]]
Procs == << 2, 4, 16 >>

PairSet(i, j) == [fam |-> "race", n |-> 2, gomaxprocs |-> Procs[((i + j) % 3) + 1], reps |-> IF Thorough THEN 6 ELSE 3,
                  programs |-> << Rep(Kinds[i], 3), Rep(Kinds[j], 3) >>]
BigSet(n, k) == [fam |-> "race", n |-> n, gomaxprocs |-> Procs[(k % 3) + 1], reps |-> IF Thorough THEN 4 ELSE 2,
                 programs |-> [g \in 1..n |-> Mixed(g + k, IF n > 8 THEN 4 ELSE 6)]]

\* many goroutines all running the same kind: maximal contention on whatever that kind shares (the random source, registries, scratch)
SameSet(k, n) == [fam |-> "race", n |-> n, gomaxprocs |-> IF n > 16 THEN 16 ELSE 4, reps |-> IF Thorough THEN 4 ELSE 2,
                  programs |-> [g \in 1..n |-> Rep(Kinds[k], 3)]]
SameKinds == IF Thorough THEN 1..NK ELSE { k \in 1..NK : Kinds[k] \in {"rand", "rand_stress", "encode_fail", "transform_stress", "keys_stress", "new_ike_sa", "decode_unknown", "dh", "derive_arena", "ike_derive", "reject_then_accept", "decode_shared", "decrypt_shared", "reject_proposal"} }

InFocus(k) == Focus = {} \/ Kinds[k] \in Focus
Init == stage = 0 /\ a = 0 /\ b = 0
Next == \/ stage = 0 /\ stage' = 1 /\ a' \in 1..NK /\ b' \in 1..NK /\ a' <= b' /\ InFocus(a') /\ InFocus(b')
        \/ stage = 0 /\ stage' = 1 /\ Focus = {} /\ a' \in {3, 8, 64} /\ b' \in (IF Thorough THEN 100..112 ELSE 100..102)
        \/ stage = 0 /\ stage' = 1 /\ a' \in (IF Focus = {} THEN SameKinds ELSE { k \in 1..NK : InFocus(k) }) /\ b' \in {216, 264}
        \/ stage = 1 /\ UNCHANGED << stage, a, b >>
Emit == stage = 1 => PrintT(ToJson(IF b >= 200 THEN SameSet(a, b - 200) ELSE IF b >= 100 THEN BigSet(a, b - 100) ELSE PairSet(a, b)))
Sound == TRUE
=============================================================================
