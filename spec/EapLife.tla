------------------------------- MODULE EapLife -------------------------------
(***************************************************************************)
(* Expectations for the EAP API (C14), shared by generation (M) and trace  *)
(* validation (T).  The state machine of the EAP-AKA' dialogue is          *)
(* AkaSession.tla; this module holds the per-call expectations.            *)
(***************************************************************************)
EXTENDS EAPWire

\* (*EAP).Marshal on a packet of the encodable domain: well formed, parses back to the same D-form,
\* reading the attributes back gives the values set, marshalling twice gives identical octets
ExpectEapEncode(d) == [panic |-> FALSE, err |-> FALSE, wire |-> EncEap(d), got |-> d, twice |-> TRUE]

EapWellFormedFor(wire, d) ==
  LET r == ParseEapW(wire) IN
  /\ r.ok /\ EapRsvZero(r.v)
  /\ r.v.m = "aka" => EapDistinctTypes(r.v.attrs)
  /\ EapStrip(r.v) = d

EapRepresentable(p) ==
  /\ p.m # "other"
  /\ p.m = "aka" => /\ EapDistinctTypes(p.attrs)
                    /\ \A i \in 1..Len(p.attrs) : p.attrs[i].t \in AkaSettable

EapClassify(b) ==
  LET r == ParseEapW(b) IN
  IF ~r.ok THEN [class |-> "free"]
  ELSE IF ~EapRepresentable(r.v) THEN [class |-> "free"]
  ELSE LET d == EapStrip(r.v) IN
       IF EapEncodable(d) THEN [class |-> "value", v |-> d] ELSE [class |-> "free"]

ExpectEapDecode(b) ==
  LET c == EapClassify(b) IN
  IF c.class = "value" THEN [panic |-> FALSE, capdiff |-> FALSE, err |-> FALSE, eap |-> c.v]
                       ELSE [panic |-> FALSE, capdiff |-> FALSE]

EapCanonical(b) ==
  LET r == ParseEapW(b) IN
  /\ r.ok /\ EapRepresentable(r.v) /\ EapRsvZero(r.v)
  /\ LET d == EapStrip(r.v) IN EapEncodable(d) /\ EncEap(d) = b

ExpectEapReencode(b) ==
  IF EapCanonical(b) THEN [panic |-> FALSE, c12 |-> "ok", same |-> TRUE]
                     ELSE [panic |-> FALSE, c12 |-> [oneof |-> << "ok", "na" >>]]

EapRefSound(d) ==
  LET w == EncEap(d) c == EapClassify(w) IN
  /\ EapEncodable(d) /\ c.class = "value" /\ c.v = d /\ EapCanonical(w) /\ EapWellFormedFor(w, d)
  /\ Len(w) % 4 = (IF d.m = "aka" THEN 0 ELSE Len(w) % 4)

\* ---- judges (T direction)
JudgeEapEncode(i, e) ==
  LET o == e.obs d == e.args.eap IN
  IF ~EapEncodable(d) THEN << >>
  ELSE IF Crashed(o) THEN B(i, << "C14" >>, "EAP encode crashed on an encodable packet")
  ELSE IF Has(o, "builderr") THEN B(i, << "C14" >>, "attribute setter refused a value of the encodable domain")
  ELSE IF o.err THEN B(i, << "C14" >>, "EAP encode refused an encodable packet")
  ELSE IF ~EapWellFormedFor(o.wire, d) THEN B(i, << "C14" >>, "encoded EAP packet is not the well-formed packet of the value")
  ELSE IF Has(o, "got") /\ o.got # d THEN B(i, << "C14" >>, "attribute read back differs from the value set")
  ELSE IF Has(o, "twice") /\ ~o.twice THEN B(i, << "C14" >>, "encoding twice gives different octets")
  ELSE << >>

JudgeEapDecode(i, e) ==
  LET o == e.obs x == ExpectEapDecode(e.args.wire) IN
  IF Crashed(o) THEN B(i, << "C04" >>, "EAP decoder crashed or hung")
  ELSE IF Has(o, "capdiff") /\ o.capdiff THEN B(i, << "C04" >>, "EAP decode outcome depends on octets beyond the slice length")
  ELSE IF ~Has(x, "err") THEN << >>
  ELSE IF o.err THEN B(i, << e.prop >>, "well-formed EAP packet of the encodable domain refused")
  ELSE IF o.eap # x.eap THEN B(i, << e.prop >>, "decoded EAP packet differs from the reference parse")
  ELSE << >>

JudgeEapReencode(i, e) ==
  LET o == e.obs IN
  IF Crashed(o) THEN B(i, << "C04" >>, "EAP decoder crashed or hung")
  ELSE IF o.c12 \notin {"ok", "na"} THEN B(i, << "C12" >>, "EAP decode/encode is not stable: " \o o.c12)
  ELSE IF o.c12 = "ok" /\ EapCanonical(e.args.wire) /\ ~o.same THEN B(i, << "C12" >>, "canonical EAP packet not reproduced byte for byte")
  ELSE IF o.c12 = "na" /\ EapCanonical(e.args.wire) THEN B(i, << "C12" >>, "canonical EAP packet not accepted or not re-encodable")
  ELSE << >>
=============================================================================
