----------------------------- MODULE Gen_Session -----------------------------
(* Behaviours of Session.tla (one IKEv2 session between two users of the library with an adversary on the wire) made concrete  *)
(* and replayed end to end on real objects: the initiator's public value from the group, the responder's SA from NewIKESAKey on   *)
(* whatever KE / nonce reached it, the initiator's SA from GetSharedKey + GenerateKeyForIKESA on whatever reached it, then every    *)
(* protected request and response of the script through EncodeEncrypt / DecodeDecrypt on those library-made key objects -- genuine,  *)
(* altered, replayed and reflected datagrams as the behaviour has them --, Child SA derivations on both ends, and the EAP-AKA'       *)
(* key hierarchy and AT_MAC codes of the challenge.  What each call must give is what Session says: acceptance exactly of what the   *)
(* peer sent under equal keys, equal keys exactly when both IKE_SA_INIT messages arrived as sent.                                    *)
EXTENDS KeyLife, EapLife, Pools
CONSTANTS ScriptNo, MaxAdv, MaxExtra, PropId, Stride
VARIABLES ini, res, net, adv, extra, hist
S == INSTANCE Session WITH DirCheck <- TRUE, MidCheck <- TRUE

Su  == LET e == << 128, 192, 256 >> a == << "md5", "sha1", "sha256" >> IN Suite(e[(Seed % 3) + 1], a[((Seed \div 3) % 3) + 1], a[((Seed \div 9) % 3) + 1])
Grp == IF Seed % 2 = 0 THEN 14 ELSE 2
XI  == FillT("seeded", 256, Seed + 77)        \* the initiator's exponent
XA  == FillT("seeded", 256, Seed + 78)        \* the adversary's exponent (an altered KE carries 2^XA)
Ni  == D(32, 1)   Nr == D(32, 2)   Nx == D(32, 3)
SpiI == D(8, 4)   SpiR == D(8, 5)

Hd(xt, resp, mid) == [ispi |-> SpiI, rspi |-> SpiR, maj |-> 2, min |-> 0, xt |-> xt, flags |-> IF resp THEN 32 ELSE 8, mid |-> U32(mid)]
Challenge == Aka(1, 9, 1, AkaOfSubset({AT_RAND, AT_AUTN, AT_KDF, AT_KDF_INPUT, AT_MAC}))
Response  == Aka(2, 9, 1, AkaOfSubset({AT_RES, AT_MAC}))
ChildNonce(mid) == FillT("seeded", 48, 30 + mid)
WithMacZ(d) == [d EXCEPT !.attrs = AttrMap(Append(SelectSeq(d.attrs, LAMBDA x : x.t # AT_MAC), [t |-> AT_MAC, v |-> Zeros(16)]), << >>)]
MacOffset == 8 + 20 + 20 + 4          \* EAP header, AKA' header, AT_RAND, AT_AUTN, AT_MAC header: 0-based offset of the AT_MAC value
MsgOf(kind, resp, mid) ==
  CASE kind = "id"    -> Hd(35, resp, mid) @@ [payloads |-> IF resp THEN << Rep("IDr"), [k |-> "EAP", eap |-> Challenge] >> ELSE << Rep("IDi") >>]
    [] kind = "eap"   -> Hd(35, resp, mid) @@ [payloads |-> IF resp THEN << [k |-> "EAP", eap |-> [code |-> 3, id |-> 9, m |-> "none"]] >> ELSE << [k |-> "EAP", eap |-> Response] >>]
    [] kind = "auth"  -> Hd(35, resp, mid) @@ [payloads |-> IF resp THEN << Rep("AUTH"), Rep("SA"), Rep("TSi"), Rep("TSr") >> ELSE << Rep("AUTH") >>]
    [] kind = "child" -> Hd(36, resp, mid) @@ [payloads |-> << Rep("SA"), [k |-> "NONCE", data |-> D(24, 40 + mid + (IF resp THEN 1 ELSE 0))], Rep("TSi"), Rep("TSr") >>]
    [] OTHER          -> Hd(37, resp, mid) @@ [payloads |-> IF resp THEN << >> ELSE << Rep("D") >>]

\* the EAP-AKA' material of the "eap" exchange: both ends derive the hierarchy from the same inputs; the challenge's code is computed
\* by the sender, put on the wire and recomputed by the receiver from the received packet
EapSteps(at) ==
  LET ik == FillT("seeded", 16, Seed + 61) ck == FillT("seeded", 16, Seed + 62) id == Lit(D(20, 63))
      kaut == PrfPrimeRecP("E").k_aut
      sent == EncEap(WithMacZ(Challenge))
      mac == Slice(Hmac("sha256", kaut, Lit(sent)), 0, 16) IN
  << Step("aka_prf", PropId, FALSE, [ik |-> ik, ck |-> ck, identity |-> id], [panic |-> FALSE, err |-> FALSE] @@ PrfPrimeRecP("E")),
     Step("aka_mac", PropId, FALSE, [eap |-> Challenge, key |-> kaut, site |-> "session-sender"], [panic |-> FALSE, err |-> FALSE, mac |-> mac]),
     Step("aka_mac", PropId, FALSE, [wire |-> OverwriteT(Lit(sent), MacOffset, Ref(at + 2, "mac")), key |-> kaut, site |-> "session-receiver"],
          [panic |-> FALSE, err |-> FALSE, mac |-> Ref(at + 2, "mac")]) >>
EapDefs == PrfPrimeDefsP("E", FillT("seeded", 16, Seed + 61), FillT("seeded", 16, Seed + 62), Lit(D(20, 63)))

\* ---- from the behaviour to steps.  a: [steps, w (datagram index -> step whose "wire" it is, 0 if none), rs (step of NewIKESAKey)]
PeerExp(d) == IF d.pub = {"i"} \/ d.pub = {"r"} THEN XI ELSE XA
PubR(a) == RefT(a.rs, "pub", DhLen(Grp))
NonceR(d) == (IF d.nonce = "ni" THEN Ni ELSE Nx) \o Nr          \* what the responder concatenates: the Ni it received, its own Nr
NonceI(d) == Ni \o (IF d.nonce = "nr" THEN Nr ELSE Nx)
WireOf(n, a) == IF net[n].of = 0 THEN Ref(a.w[n], "wire") ELSE Flip(Ref(a.w[net[n].of], "wire"), 45, 2)      \* an altered copy: one bit of the IV
KidStep(who, px, mid) == ChildStep(PropId, who, "K" \o who \o ToString(mid), Su.prf, IkeKeyRecP(px, Su).sk_d, ChildNonce(mid), 256, "sha1")
Apply(e, a) ==
  LET n0 == Len(a.steps) IN
  CASE e.ev = "I_init" ->
         [a EXCEPT !.steps = Append(@, Step("dh_pub", PropId, FALSE, [grp |-> Grp, x |-> XI], [panic |-> FALSE, pub |-> PubT(Grp, XI)])), !.w = Append(@, 0)]
    [] e.ev \in {"A_ke", "A_nonce", "A_alter"} -> [a EXCEPT !.w = Append(@, 0)]
    [] e.ev = "R_init" ->
         LET d == net[e.n] IN
         [a EXCEPT !.steps = Append(@, NewIkeSaStepP("R", PropId, "R", Su, Grp, IF d.pub = {"i"} THEN PubT(Grp, XI) ELSE PubT(Grp, XA), Lit(NonceR(d)), SpiI, SpiR,
                                                      [mode |-> "det", seed |-> Seed + 9])),
                   !.rs = n0 + 1, !.w = Append(@, 0)]
    [] e.ev = "I_keyed" ->
         LET d == net[e.n] peer == IF d.pub = {"r"} THEN PubR(a) ELSE PubT(Grp, XA) IN
         [a EXCEPT !.steps = @ \o << Step("dh_shared", PropId, FALSE, [grp |-> Grp, x |-> XI, peer |-> peer], [panic |-> FALSE, shared |-> SharedT(Grp, XI, peer)]),
                                     Step("ike_derive", PropId, FALSE,
                                          [name |-> "I", suite |-> Su, grp |-> Grp, via |-> "str", nonce |-> Lit(NonceI(d)), secret |-> Ref(n0 + 1, "shared"),
                                           spii |-> SpiI, spir |-> SpiR] @@ ProbeArgsP("I", Su), IkeKeyExpectP("I", Su)) >>]
    [] e.ev = "I_request" ->
         LET d == net[e.n] IN
         [a EXCEPT !.steps = Append(@, ProtectStep(PropId, "I", TRUE, MsgOf(d.kind, FALSE, d.mid), "system")), !.w = Append(@, n0 + 1)]
    [] e.ev = "R_recv" ->
         LET d == net[e.n]
             un == UnprotectStep(PropId, "R", FALSE, WireOf(e.n, a), IF e.n % 2 = 0 THEN "nil" ELSE "pre",
                                 IF e.ok THEN AcceptExp(MsgOf(d.kind, d.resp, d.mid)) ELSE RejectExp)
             kid == IF e.due /\ d.kind \in {"auth", "child"} THEN << KidStep("R", "R", d.mid) >> ELSE << >>
             eap == IF e.due /\ d.kind = "eap" THEN EapSteps(n0 + 1 + Len(kid)) ELSE << >>
             rsp == IF e.due THEN << ProtectStep(PropId, "R", FALSE, MsgOf(d.kind, TRUE, d.mid), "system") >> ELSE << >> IN
         [a EXCEPT !.steps = @ \o << un >> \o kid \o eap \o rsp,
                   !.w = IF e.due THEN Append(@, n0 + 1 + Len(kid) + Len(eap) + 1) ELSE @]
    [] OTHER ->      \* I_recv
         LET d == net[e.n]
             un == UnprotectStep(PropId, "I", TRUE, WireOf(e.n, a), IF e.n % 2 = 0 THEN "pre" ELSE "nil",
                                 IF e.ok THEN AcceptExp(MsgOf(d.kind, d.resp, d.mid)) ELSE RejectExp)
             kid == IF e.due /\ d.kind \in {"auth", "child"} THEN << KidStep("I", "I", d.mid) >> ELSE << >> IN
         [a EXCEPT !.steps = @ \o << un >> \o kid]
RECURSIVE Build(_, _)
Build(i, a) == IF i > Len(hist) THEN a ELSE Build(i + 1, Apply(hist[i], a))

\* definitions: the two key sets (what each end derives from what reached it), the EAP hierarchy
RDatagram == LET js == { j \in 1..Len(hist) : hist[j].ev = "R_init" } IN IF js = {} THEN 0 ELSE hist[CHOOSE j \in js : TRUE].n
IDatagram == LET js == { j \in 1..Len(hist) : hist[j].ev = "I_keyed" } IN IF js = {} THEN 0 ELSE hist[CHOOSE j \in js : TRUE].n
Defs(a) ==
  (IF RDatagram = 0 THEN << >>
   ELSE LET d == net[RDatagram] IN IkeKeyDefsP("R", Su, Lit(NonceR(d)), SharedT(Grp, PeerExp(d), PubR(a)), Lit(SpiI), Lit(SpiR)))
  \o (IF IDatagram = 0 THEN << >>
      ELSE LET d == net[IDatagram] peer == IF d.pub = {"r"} THEN PubR(a) ELSE PubT(Grp, XA) IN
           IkeKeyDefsP("I", Su, Lit(NonceI(d)), SharedT(Grp, XI, peer), Lit(SpiI), Lit(SpiR)))
  \o (IF \E j \in 1..Len(hist) : hist[j].ev = "R_recv" /\ hist[j].due /\ net[hist[j].n].kind = "eap" THEN EapDefs ELSE << >>)
Vec == LET a == Build(1, [steps |-> << >>, w |-> << >>, rs |-> 0]) IN VectorD("session", Defs(a), a.steps)

Init == S!Init
Next == S!Next
\* a behaviour is printed when the script has been played to the end, or when the two ends hold different keys and the first
\* request has been refused (nothing more can happen)
RECURSIVE HistHash(_)
HistHash(i) == IF i = 0 THEN Seed ELSE (HistHash(i - 1) * 31 + hist[i].n * 7 + (IF hist[i].ok THEN 1 ELSE 0) + Len(hist[i].ev)) % 100003
Stuck == ini.keys.has /\ res.keys.has /\ ini.keys # res.keys /\ Len(hist) > 0 /\ hist[Len(hist)].ev = "R_recv"
Emit == ((S!Finished /\ HistHash(Len(hist)) % Stride = 0) \/ Stuck) => PrintT(ToJson(Vec))       \* (the few disagreement behaviours are all printed)
Sound == S!Authentic /\ S!KeysAgreeIffUntampered /\ S!NothingUnderDisagreement /\ S!LockStep /\ S!ChildrenAgree
=============================================================================
