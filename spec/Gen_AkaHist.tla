----------------------------- MODULE Gen_AkaHist -----------------------------
(***************************************************************************)
(* One long-lived EAP-AKA' packet object (C14 C15): a state machine whose   *)
(* state is the attribute map a user has set so far.  SetAttr changes it    *)
(* only when the value is accepted (a refused call leaves NO trace);         *)
(* Marshal always gives the reference encoding of the current map (zero      *)
(* padding, exact bit lengths -- whatever was encoded before); the AT_MAC    *)
(* code is a function of the current map only (it leaves AT_MAC zeroed).     *)
(* TLC explores all call histories to MaxOps; each is replayed on one real   *)
(* object.                                                                   *)
(***************************************************************************)
EXTENDS EapLife, KeyLife, Pools
CONSTANTS MaxOps,
          FromWire,    \* TRUE: the object is not built but decoded from a packet whose attributes are NOT in ascending order
          PropId       \* the property the run is made for ("C14": the code computations are attributed to C15)
VARIABLES attrs, ops, done
PSet == PropId
PMac == IF PropId = "C14" THEN "C15" ELSE PropId

V(t, n, s) == [t |-> t, v |-> D(n, s)]
\* calls: set of an accepted value, set of a refused value, marshal, calc
Calls == { [op |-> "set", a |-> V(AT_RES, 8, 1)], [op |-> "set", a |-> V(AT_RES, 5, 2)], [op |-> "set", a |-> V(AT_RES, 300, 3)], [op |-> "set", a |-> V(AT_RES, 3, 4)],
           [op |-> "set", a |-> V(AT_KDF_INPUT, 12, 5)], [op |-> "set", a |-> V(AT_KDF_INPUT, 9, 6)], [op |-> "set", a |-> V(AT_RAND, 16, 7)],
           [op |-> "set", a |-> V(AT_RAND, 15, 8)], [op |-> "set", a |-> V(AT_MAC, 16, 9)], [op |-> "set", a |-> V(AT_KDF, 3, 10)],
           [op |-> "set", a |-> V(AT_CHECKCODE, 20, 11)],       \* (with AT_RES a second type the received packet did not carry)
           [op |-> "marshal", a |-> V(0, 0, 0)], [op |-> "calc", a |-> V(0, 0, 0)] }
Accepted(a) == AkaValueOk(a)
Put(as, a) == AttrMap(Append(as, a), << >>)
Key == FillT("seeded", 32, 5)
Pkt(as) == Aka(2, 33, 1, as)

\* the received packet: RAND, AUTN, KDF, KDF_INPUT, MAC -- the order servers commonly use (KDF 24 before KDF_INPUT 23, MAC 11 last)
WireAttrs == << V(AT_RAND, 16, 21), V(AT_AUTN, 16, 22), V(AT_KDF, 2, 23), V(AT_KDF_INPUT, 7, 24), V(AT_MAC, 16, 25) >>
WirePkt == [code |-> 2, id |-> 33, m |-> "aka", sub |-> 1, rsv |-> 0, attrs |-> [i \in 1..Len(WireAttrs) |-> AkaAttrPlain(WireAttrs[i])]]
Attrs0 == IF FromWire THEN AttrMap(WireAttrs, << >>) ELSE << >>
Init == attrs = Attrs0 /\ ops = << >> /\ done = FALSE
Call(c) == /\ ~done /\ Len(ops) < MaxOps /\ ops' = Append(ops, c) /\ done' = FALSE
           /\ attrs' = CASE c.op = "set" -> IF Accepted(c.a) THEN Put(attrs, c.a) ELSE attrs
                         [] c.op = "calc" -> Put(attrs, [t |-> AT_MAC, v |-> Zeros(16)])       \* the computation leaves AT_MAC zeroed
                         [] OTHER -> attrs
Next == (\E c \in Calls : Call(c)) \/ (~done /\ Len(ops) = MaxOps /\ done' = TRUE /\ UNCHANGED << attrs, ops >>)

RECURSIVE Steps(_, _)
Steps(s, as) ==
  IF Len(s) = 0 THEN << >>
  ELSE LET c == Head(s) IN
       CASE c.op = "set" ->
              LET ok == Accepted(c.a) as2 == IF ok THEN Put(as, c.a) ELSE as IN
              << Step("aka_setattr", PSet, FALSE, [t |-> c.a.t, v |-> c.a.v], [panic |-> FALSE, err |-> ~ok, attrs |-> as2]) >> \o Steps(Tail(s), as2)
         [] c.op = "marshal" ->
              << Step("aka_marshal", PSet, FALSE, [x |-> 0], [panic |-> FALSE, err |-> FALSE, wire |-> EncEap(Pkt(as)), twice |-> TRUE, attrs |-> as]) >> \o Steps(Tail(s), as)
         [] OTHER ->
              LET as2 == Put(as, [t |-> AT_MAC, v |-> Zeros(16)]) IN
              << Step("aka_calcmac", PMac, FALSE, [key |-> Key, site |-> "object-history"],
                      \* (the order of the attributes on the wire is the encoder's choice: the code is over the octets the object emits -- macok,
                      \*  computed by the harness with the standard library -- and those octets are the reference encoding attribute by attribute)
                      [panic |-> FALSE, err |-> FALSE, macok |-> TRUE, refwire |-> EncEap(Pkt(as2))]) >> \o Steps(Tail(s), as2)

HistVector(s) == Vector("akahist", << IF FromWire THEN Step("aka_load", PSet, FALSE, [wire |-> EncEapW(WirePkt)], [panic |-> FALSE, err |-> FALSE, attrs |-> Attrs0])
                                                      ELSE Step("aka_new", PSet, FALSE, [code |-> 2, id |-> 33, sub |-> 1], [panic |-> FALSE, attrs |-> << >>]) >>
                                   \o Steps(s, Attrs0)
                                   \o << Step("aka_marshal", PSet, FALSE, [x |-> 0], [panic |-> FALSE, err |-> FALSE, wire |-> EncEap(Pkt(attrs)), twice |-> TRUE, attrs |-> attrs]) >>)
Emit == done => PrintT(ToJson(HistVector(ops)))
Sound == done => EapEncodable(Pkt(attrs))
=============================================================================
