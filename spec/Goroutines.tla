------------------------------ MODULE Goroutines ------------------------------
(***************************************************************************)
(* C18.  N goroutines, each running a program (a sequence of library       *)
(* operations) on its OWN message and SA objects.  What they share is the  *)
(* algorithm registries (written by init() only, read by every lookup),    *)
(* the process-wide random source (safe for concurrent use), and -- in one *)
(* of the programs -- a read-only input slice.                             *)
(* An operation takes two steps (Begin reads what it needs, End produces   *)
(* the result), so operations of different goroutines overlap in every     *)
(* possible way.  The knobs describe what the library must NOT do:         *)
(*   LazyRegistry   a registry filled in on first use instead of at init   *)
(*   SharedScratch  a package-level scratch buffer used between Begin/End  *)
(* With both FALSE the invariants hold for all interleavings; with either  *)
(* TRUE TLC finds a schedule that breaks them (sanity runs).               *)
(***************************************************************************)
EXTENDS Naturals, Sequences, FiniteSets, TLC

CONSTANTS N, LazyRegistry, SharedScratch
Progs == << << "a", "b" >>, << "b", "c" >>, << "c" >> >>     \* programs (operation kinds), assigned round robin
G == 1..N
VARIABLES pc,        \* pc[g]: index of the next operation of g
          phase,     \* "idle" | "mid": between Begin and End of the current operation
          local,     \* what g captured at Begin (its own input tag, and the scratch content if the library used one)
          scratch,   \* the package-level scratch buffer (only if SharedScratch)
          regInit,   \* the registry has been initialised
          regWrites, \* number of writes to the registry after program start
          result,    \* result[g]: sequence of results of its operations
          sched      \* history: the schedule (sequence of goroutine ids)
vars == << pc, phase, local, scratch, regInit, regWrites, result, sched >>

Prog(g) == Progs[((g - 1) % Len(Progs)) + 1]
Init == /\ pc = [g \in G |-> 1] /\ phase = [g \in G |-> "idle"] /\ local = [g \in G |-> << >>] /\ scratch = << >>
        /\ regInit = ~LazyRegistry /\ regWrites = 0 /\ result = [g \in G |-> << >>] /\ sched = << >>

\* the value an operation computes alone: a function of the goroutine's own input only
Alone(g, op) == << g, op >>

Begin(g) ==
  /\ pc[g] <= Len(Prog(g)) /\ phase[g] = "idle"
  /\ LET op == Prog(g)[pc[g]] IN
     /\ phase' = [phase EXCEPT ![g] = "mid"]
     /\ scratch' = IF SharedScratch THEN Alone(g, op) ELSE scratch        \* the library parks intermediate data in the shared buffer
     /\ local' = [local EXCEPT ![g] = Alone(g, op)]
     /\ IF ~regInit THEN regInit' = TRUE /\ regWrites' = regWrites + 1 ELSE UNCHANGED << regInit, regWrites >>
  /\ sched' = Append(sched, g) /\ UNCHANGED << pc, result >>
End(g) ==
  /\ phase[g] = "mid"
  /\ phase' = [phase EXCEPT ![g] = "idle"] /\ pc' = [pc EXCEPT ![g] = pc[g] + 1]
  /\ result' = [result EXCEPT ![g] = Append(result[g], IF SharedScratch THEN scratch ELSE local[g])]
  /\ sched' = Append(sched, g) /\ UNCHANGED << local, scratch, regInit, regWrites >>
Next == \E g \in G : Begin(g) \/ End(g)

Done == \A g \in G : pc[g] > Len(Prog(g))
NonInterference == \A g \in G : \A i \in 1..Len(result[g]) : result[g][i] = Alone(g, Prog(g)[i])
RegistriesConstant == regWrites = 0
View == << pc, phase, local, scratch, regInit, regWrites, result >>
=============================================================================
