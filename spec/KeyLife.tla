------------------------------- MODULE KeyLife -------------------------------
(***************************************************************************)
(* Concrete expectations for key establishment (C07 C08 C09): the octets   *)
(* of SALife's symbolic keys and public values, as terms over HMAC, AES    *)
(* and modular exponentiation with the RFC primes of DHGroups.             *)
(***************************************************************************)
EXTENDS SKLife, DHGroups

PrimeOf(g) == IF g = 2 THEN Prime2 ELSE Prime14
PubT(g, x)        == LPad(ModExp(Lit(<< 2 >>), x, Lit(PrimeOf(g))), DhLen(g))          \* 2^x mod p, left padded
SharedT(g, x, y)  == LPad(ModExp(y, x, Lit(PrimeOf(g))), DhLen(g))                     \* y^x mod p, left padded

Tr0(tt, tid) == [c |-> tt, tt |-> tt, tid |-> tid, attr |-> "none", at |-> 0, av |-> 0, avl |-> << >>]
IkeProp(su, g) == [num |-> 1, proto |-> 1, spi |-> << >>,
                   tr |-> << [c |-> 1, tt |-> 1, tid |-> 12, attr |-> "tv", at |-> 14, av |-> su.encr, avl |-> << >>],
                             Tr0(2, PrfId(su.prf)), Tr0(3, IntegId(su.integ)), Tr0(4, g) >>]

Probe == Lit(Ramp(20, 200))
Probe15 == Ramp(15, 60)
ProbeCt(key) == LET iv == FillT("ramp", 16, 3) IN Cat(<< iv, Cbc(key, iv, Cat(<< Lit(Probe15), Lit(<< 0 >>) >>)) >>)

\* what an SA key object derived for suite su must hold and do (the key terms refer to the vector's defs, prefix px)
IkeKeyExpectP(px, su) ==
  LET k == IkeKeyRecP(px, su) IN
  [panic |-> FALSE, err |-> FALSE] @@ k @@
  [p_prf_d |-> Hmac(su.prf, k.sk_d, Probe), p_integ_i |-> Hmac(su.integ, k.sk_ai, Probe), p_integ_r |-> Hmac(su.integ, k.sk_ar, Probe),
   p_prf_i |-> Hmac(su.prf, k.sk_pi, Probe), p_prf_r |-> Hmac(su.prf, k.sk_pr, Probe), p_ct_i |-> Lit(Probe15), p_ct_r |-> Lit(Probe15)]
ProbeArgsP(px, su) == LET k == IkeKeyRecP(px, su) IN [probe |-> Probe, ct_i |-> ProbeCt(k.sk_ei), ct_r |-> ProbeCt(k.sk_er)]
IkeKeyExpect(su) == IkeKeyExpectP("", su)
ProbeArgs(su) == ProbeArgsP("", su)

IkeDeriveStep(prop, name, su, g, via, nonce, secret, spii, spir) ==
  Step("ike_derive", prop, FALSE,
       [name |-> name, suite |-> su, grp |-> g, via |-> via, nonce |-> nonce, secret |-> secret, spii |-> spii, spir |-> spir] @@ ProbeArgs(su),
       IkeKeyExpect(su))
\* a derivation on the key object registered as `rekey` (it already went through a derivation): same expectations as fresh
IkeRederiveStep(prop, px, name, rekey, su, g, nonce, secret, spii, spir) ==
  Step("ike_derive", prop, FALSE,
       [name |-> name, rekey |-> rekey, suite |-> su, grp |-> g, via |-> "str", nonce |-> nonce, secret |-> secret, spii |-> spii, spir |-> spir] @@ ProbeArgsP(px, su),
       IkeKeyExpectP(px, su))
NewIkeSaStep(prop, name, su, g, peer, nonce, spii, spir, rnd) ==
  Step("new_ike_sa", prop, FALSE,
       [name |-> name, suite |-> su, prop |-> IkeProp(su, g), wire |-> TRUE, peer |-> peer, nonce |-> nonce, spii |-> spii, spir |-> spir, rand |-> rnd],
       [panic |-> FALSE, err |-> FALSE, haskey |-> TRUE, haspub |-> TRUE, ndelivered |-> [oneof |-> << 256, 512, 768, 1024 >>]] @@ IkeKeyRec(su))
NewIkeSaStepP(px, prop, name, su, g, peer, nonce, spii, spir, rnd) ==
  Step("new_ike_sa", prop, FALSE,
       [name |-> name, suite |-> su, prop |-> IkeProp(su, g), wire |-> TRUE, peer |-> peer, nonce |-> nonce, spii |-> spii, spir |-> spir, rand |-> rnd],
       [panic |-> FALSE, err |-> FALSE, haskey |-> TRUE, haspub |-> TRUE, ndelivered |-> [oneof |-> << 256, 512, 768, 1024 >>]] @@ IkeKeyRecP(px, su))
SaProbeStep(prop, name, su) ==
  LET k == IkeKeyRec(su) x == IkeKeyExpect(su) IN
  Step("sa_probe", prop, FALSE, [sa |-> name] @@ ProbeArgs(su),
       [panic |-> FALSE, p_prf_d |-> x.p_prf_d, p_integ_i |-> x.p_integ_i, p_integ_r |-> x.p_integ_r, p_prf_i |-> x.p_prf_i, p_prf_r |-> x.p_prf_r,
        p_ct_i |-> x.p_ct_i, p_ct_r |-> x.p_ct_r])
\* the random source fails at read k: if the failure is delivered during the call, the call must report an error and
\* return neither a key nor a public value; failat = 0 is always delivered
NewIkeSaFailStep(prop, su, g, peer, nonce, spii, spir, rnd) ==
  Step("new_ike_sa", prop, FALSE,
       [name |-> "", suite |-> su, prop |-> IkeProp(su, g), wire |-> FALSE, peer |-> peer, nonce |-> nonce, spii |-> spii, spir |-> spir, rand |-> rnd],
       IF rnd.failat = 0 THEN [panic |-> FALSE, err |-> TRUE, haskey |-> FALSE, haspub |-> FALSE, faultok |-> TRUE]
                         ELSE [panic |-> FALSE, faultok |-> TRUE])

ChildStep(prop, sa, pfx, prf, skd, nonce, encrBits, integName) ==
  LET el == EncrKeyLen(encrBits) al == IF integName = "none" THEN 0 ELSE IntegKeyLen(integName) IN
  Step("derive_child", prop, FALSE, [sa |-> sa, nonce |-> nonce, encr |-> encrBits, integ |-> integName],
       [panic |-> FALSE, err |-> FALSE] @@ ChildKeyRec(pfx, prf, el, al))
  @@ [defs |-> ChildKeyDefs(pfx, prf, skd, nonce, el, al)]

\* the same derivation on a Child SA object that came out of a negotiated ESP proposal (via: "proposal" = no DH transform offered,
\* "proposal-dh2" / "proposal-dh14")
ChildStepVia(prop, sa, pfx, prf, skd, nonce, encrBits, integName, via) ==
  [ChildStep(prop, sa, pfx, prf, skd, nonce, encrBits, integName) EXCEPT !.args = @ @@ [via |-> via]]

RECURSIVE DefsOf(_)
DefsOf(steps) == IF Len(steps) = 0 THEN << >>
                 ELSE (IF "defs" \in DOMAIN Head(steps) THEN Head(steps).defs ELSE << >>) \o DefsOf(Tail(steps))
PlainStep(st) == [act |-> st.act, prop |-> st.prop, soft |-> st.soft, args |-> st.args, expect |-> st.expect]
VectorD(fam, defs, steps) == [fam |-> fam, defs |-> defs \o DefsOf(steps), steps |-> [i \in 1..Len(steps) |-> PlainStep(steps[i])]]
=============================================================================
