------------------------------ MODULE CipherLife ------------------------------
(* Expectations and vector builders for the AES-CBC transform (C10), shared by generation and trace validation. *)
EXTENDS CodecLife, Terms

CtLens(n) == { 16 + 16 * k : k \in 1..(((n + 256) \div 16)) } \cap { L \in 0..(n + 300) : L - 16 > n /\ L - 16 <= n + 256 }
CipherNew(name, bits, key) ==
  Step("cipher_new", "C10", FALSE, [name |-> name, bits |-> bits, key |-> key],
       IF LenOf(key) * 8 = bits THEN [panic |-> FALSE, err |-> FALSE, hasobj |-> TRUE] ELSE [panic |-> FALSE, err |-> TRUE, hasobj |-> FALSE])
EncryptStep(obj, pt, rnd) ==
  Step("cipher_encrypt", "C10", FALSE, [obj |-> obj, pt |-> pt, rand |-> rnd],
       [panic |-> FALSE, err |-> FALSE, hasct |-> TRUE, ctlen |-> [oneof |-> SeqOfSet(CtLens(LenOf(pt)))], ivrepeat |-> FALSE, ptsame |-> TRUE]
       @@ (IF rnd.mode = "system" THEN << >> ELSE [ivdelivered |-> TRUE]))
EncryptFailStep(obj, pt, rnd) ==
  Step("cipher_encrypt", "C10", FALSE, [obj |-> obj, pt |-> pt, rand |-> rnd],
       IF rnd.failat = 0 THEN [panic |-> FALSE, err |-> TRUE, hasct |-> FALSE] ELSE [panic |-> FALSE])
DecryptStep(obj, ct, exp) == Step("cipher_decrypt", "C10", FALSE, [obj |-> obj, ct |-> ct, caps |-> TRUE], exp)
DecOk(pt)  == [panic |-> FALSE, capdiff |-> FALSE, err |-> FALSE, pt |-> pt]
DecErr     == [panic |-> FALSE, capdiff |-> FALSE, err |-> TRUE]

\* judge of a recorded Encrypt (T direction): size law and textbook-CBC content, from the echo oracle
JudgeEncrypt(i, e, key) ==
  LET o == e.obs n == Len(e.args.pt) IN
  IF Crashed(o) THEN B(i, << "C10" >>, "Encrypt crashed")
  ELSE IF o.err THEN (IF Has(o, "failseen") /\ o.failseen THEN (IF o.hasct THEN B(i, << "C10" >>, "ciphertext returned although the random source failed") ELSE << >>)
                      ELSE B(i, << "C10" >>, "Encrypt failed although the random source worked"))
  ELSE IF Has(o, "failseen") /\ o.failseen THEN B(i, << "C10" >>, "random source failed but Encrypt returned a ciphertext")
  ELSE LET L == Len(o.ct) IN
       IF L < 32 \/ (L - 16) % 16 # 0 \/ ~(n < L - 16 /\ L - 16 <= n + 256) THEN B(i, << "C10" >>, "ciphertext length violates 16 + 16k, n < 16k <= n + 256")
       ELSE IF ~Has(o, "oracle") THEN B(i, << "INFRA" >>, "no oracle on encrypt")
       ELSE IF o.oracle.key # key \/ o.oracle.iv_span # << 0, 16 >> \/ o.oracle.ct_span # << 16, L >> THEN B(i, << "INFRA" >>, "oracle mismatch on encrypt")
       ELSE LET full == o.oracle.pt IN
            IF Take(full, n) # e.args.pt THEN B(i, << "C10" >>, "textbook CBC decryption does not start with the plaintext")
            ELSE IF full[Len(full)] # L - 16 - n - 1 THEN B(i, << "C10" >>, "last plaintext octet is not the pad length")
            ELSE IF o.ivrepeat THEN B(i, << "C10" >>, "IV repeated")
            ELSE IF Has(o, "ivdelivered") /\ ~o.ivdelivered THEN B(i, << "C10" >>, "IV does not come from the random source")
            ELSE << >>
=============================================================================
