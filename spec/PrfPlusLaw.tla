----------------------------- MODULE PrfPlusLaw -----------------------------
(***************************************************************************)
(* Unbounded version of the assembly arithmetic of prf+ (RFC 7296 2.13),   *)
(* behind C07 / C08 / C16: for EVERY requested length n and every PRF      *)
(* output size sz the key stream is the first n octets of T1 | T2 | ...,   *)
(* T_i carrying the counter octet i -- so ceil(n / sz) blocks are needed,  *)
(* at most 255, the last one used in part unless sz divides n.  The        *)
(* generation modules enumerate the 27 suites and a pool of Child SA       *)
(* sizes; here n is any natural number.                                    *)
(* An implementation copies `full` whole blocks and then `rest` octets of  *)
(* one more block.  AssemblyRule "ceil": full = n div sz, rest = n mod sz  *)
(* (no further block when rest = 0); "lastpart": full = (n - 1) div sz,    *)
(* rest = n - full * sz (the last block always copied in part, 1..sz       *)
(* octets); "modrest": full = (n - 1) div sz, rest = n mod sz -- the slip  *)
(* that loses the last block whenever sz divides n: must fail.             *)
(* Checked with Apalache:  apalache-mc check --length=0 --inv=Inv          *)
(***************************************************************************)
EXTENDS Integers

CONSTANT
  \* @type: Str;
  AssemblyRule

VARIABLES
  \* @type: Int;
  n,
  \* @type: Int;
  sz

Full == IF AssemblyRule = "ceil" THEN n \div sz ELSE (n - 1) \div sz
Rest == CASE AssemblyRule = "ceil" -> n % sz [] AssemblyRule = "lastpart" -> n - Full * sz [] OTHER -> n % sz
Blocks == IF Rest = 0 THEN Full ELSE Full + 1          \* blocks that have to be computed

Init == n \in Nat /\ n >= 1 /\ sz \in {16, 20, 32, 64}
Next == UNCHANGED << n, sz >>

Covers == Full * sz + Rest = n /\ Rest >= 0 /\ Rest <= sz /\ Full >= 0
Minimal == (Blocks - 1) * sz < n /\ n <= Blocks * sz                      \* exactly ceil(n / sz) blocks
CounterFits == n <= 255 * sz => Blocks <= 255                            \* the counter octet never wraps inside the RFC's limit
Inv == Covers /\ Minimal /\ CounterFits
=============================================================================
