-------------------------------- MODULE Gen_SK --------------------------------
(* C01 (round trip through the real protect / unprotect for every suite, role, header mode, random-source class and *)
(* message shape; plain fallback without keys) and C06 direction 2 (reference-built protected datagrams with every *)
(* legal pad length, pad contents and IV contents must be accepted and decoded to the message).                    *)
EXTENDS SKLife, Pools
VARIABLES stage, su, role, mi, variant

SuiteSeq == << Suite(128, "md5", "sha1"), Suite(192, "md5", "md5"), Suite(256, "md5", "sha256"),
               Suite(128, "sha1", "sha256"), Suite(192, "sha1", "sha1"), Suite(256, "sha1", "md5"),
               Suite(128, "sha256", "md5"), Suite(192, "sha256", "sha256"), Suite(256, "sha256", "sha1") >>

ShapeChains == << << >>, << Rep("N") >>, << Rep("EAP") >>, << Rep("SA"), Rep("KE"), Rep("NONCE") >>, ChainAll,
                  << Rep("IDi"), Rep("CERTREQ"), Rep("AUTH"), Rep("CP"), Rep("SA"), Rep("TSi"), Rep("TSr") >>,
                  << Rep("D") >>, << Rep("V"), Rep("V") >>, << Rep("CERT") >>, << Rep("TSi") >>, << Rep("IDr") >>, << Rep("CP") >>,
                  << Rep("KE") >>, << Rep("AUTH") >>, << Rep("NONCE") >>, << Rep("SA") >>, << Rep("CERTREQ") >>, << Rep("IDi") >>, << Rep("TSr") >>,
                  << [k |-> "NONCE", data |-> D(11, 5)] >>, << [k |-> "NONCE", data |-> D(12, 5)] >>, << [k |-> "NONCE", data |-> D(13, 5)] >>,
                  << [k |-> "V", data |-> D(65000, 6)] >> >>
NShapes == Len(ShapeChains)
M(i) == Msg(((i - 1) % 5) + 1, ShapeChains[i])

\* variants: 1..8 = round trip with rand class x header mode; 9 = unkeyed fallback; 10.. = reference-built (pad index)
RandOf(v) == << "system", "zero", "ff", "ramp" >>[((v - 1) % 4) + 1]
ModeOf(v) == IF v <= 4 THEN "nil" ELSE "pre"

RoundTripVector(s, r, m, v) ==
  Vector("sk_roundtrip", <<
    SaNew("S", s, KeysOf(s, 1)), SaNew("R", s, KeysOf(s, 1)),
    ProtectStep("C01", "S", r, m, RandOf(v)),
    UnprotectStep("C01", "R", ~r, Ref(3, "wire"), ModeOf(v), AcceptExp(m)),
    UnprotectStep("C02", "R", r, Ref(3, "wire"), ModeOf(v), RejectExp) >>)       \* reflection: same role that produced it

FallbackVector(m) ==
  Vector("sk_fallback", <<
    ProtectStep("C01", "none", TRUE, m, "system"),
    UnprotectStep("C01", "none", FALSE, Ref(1, "wire"), "nil", [panic |-> FALSE, capdiff |-> FALSE, err |-> FALSE, msg |-> Norm(m), decrypts |-> 0]),
    UnprotectStep("C01", "none", TRUE, EncMsg(Norm(m)), "pre", [panic |-> FALSE, capdiff |-> FALSE, err |-> FALSE, msg |-> Norm(m), decrypts |-> 0]) >>)

PadFill(j, n) == CASE j % 4 = 0 -> FillT("zero", n, 0) [] j % 4 = 1 -> FillT("ff", n, 0) [] j % 4 = 2 -> FillT("ramp", n, j) [] OTHER -> FillT("seeded", n, Seed + j)
RefVector(s, r, m, j) ==     \* j-th legal pad length
  LET inner == EncChain(NormChain(m.payloads))
      pls   == { p \in PadLens(Len(inner)) : TRUE }
      pl    == CHOOSE p \in pls : Cardinality({ q \in pls : q < p }) = j - 1
      keys  == KeysOf(s, 1)
      w     == RefProtect(m, s, keys, r, PadFill(j + 1, 16), pl, PadFill(j, pl)) IN
  Vector("sk_reference", <<
    SaNew("R", s, keys),
    UnprotectStep("C06", "R", ~r, w, IF j % 2 = 0 THEN "nil" ELSE "pre", AcceptExp(m)) >>)

NVariants == 9 + 16
Init == stage = 0 /\ su = 0 /\ role = TRUE /\ mi = 0 /\ variant = 0
Next ==
  \/ stage = 0 /\ stage' = 1 /\ su' \in 1..9 /\ role' \in BOOLEAN /\ UNCHANGED << mi, variant >>
  \/ stage = 1 /\ stage' = 2 /\ mi' \in 1..NShapes /\ UNCHANGED << su, role, variant >>
  \/ stage = 2 /\ stage' = 3 /\ UNCHANGED << su, role, mi >>
     /\ variant' \in { v \in 1..NVariants :
                         \* quick tier: thin out the product, every suite x role still meets every shape and every variant class
                         \/ Thorough
                         \/ (v <= 8 /\ (v + mi + su) % 4 = 0)
                         \/ (v = 9 /\ su = 1)
                         \/ (v >= 10 /\ mi <= 6 /\ (v + mi + su) % 4 = 0) }
     /\ (variant' >= 10 => Len(EncChain(NormChain(M(mi).payloads))) < 4000)
  \/ stage = 3 /\ UNCHANGED << stage, su, role, mi, variant >>

Vec == IF variant <= 8 THEN RoundTripVector(SuiteSeq[su], role, M(mi), variant)
       ELSE IF variant = 9 THEN FallbackVector(M(mi))
       ELSE RefVector(SuiteSeq[su], role, M(mi), variant - 9)
Emit == stage = 3 => PrintT(ToJson(Vec))
Sound == stage = 3 => Encodable(M(mi)) /\ FitsProtected(M(mi), SuiteSeq[su])
=============================================================================
