-------------------------------- MODULE Gen_SK --------------------------------
(* C01 (round trip through the real protect / unprotect for every suite, role, header mode, random-source class and *)
(* message shape; plain fallback without keys) and C06 direction 2 (reference-built protected datagrams with every *)
(* legal pad length, pad contents and IV contents must be accepted and decoded to the message).                    *)
EXTENDS SKLife, Pools
CONSTANT OnlySeq     \* "": everything; a property id: print only the long single-object sequences, attributed to that property
                     \* (C17: state carried across operations; C20: protected messages held by the caller stay as they were)
VARIABLES stage, su, role, mi, variant

SuiteSeq == << Suite(128, "md5", "sha1"), Suite(192, "md5", "md5"), Suite(256, "md5", "sha256"),
               Suite(128, "sha1", "sha256"), Suite(192, "sha1", "sha1"), Suite(256, "sha1", "md5"),
               Suite(128, "sha256", "md5"), Suite(192, "sha256", "sha256"), Suite(256, "sha256", "sha1") >>

ShapeChains == << << >>, << Rep("N") >>, << Rep("EAP") >>, << Rep("SA"), Rep("KE"), Rep("NONCE") >>, ChainAll,
                  << Rep("IDi"), Rep("CERTREQ"), Rep("AUTH"), Rep("CP"), Rep("SA"), Rep("TSi"), Rep("TSr") >>,
                  << Rep("D") >>, << Rep("V"), Rep("V") >>, << Rep("CERT") >>, << Rep("TSi") >>, << Rep("IDr") >>, << Rep("CP") >>,
                  << Rep("KE") >>, << Rep("AUTH") >>, << Rep("NONCE") >>, << Rep("SA") >>, << Rep("CERTREQ") >>, << Rep("IDi") >>, << Rep("TSr") >>,
                  << [k |-> "NONCE", data |-> D(11, 5)] >>, << [k |-> "NONCE", data |-> D(12, 5)] >>, << [k |-> "NONCE", data |-> D(13, 5)] >>,
                  << [k |-> "V", data |-> D(65000, 6)] >> >>
NOld == Len(ShapeChains)
\* more shapes (thinner sampling in the quick tier): the same kind twice and three times in one message, for every kind; TS lists in which
\* an IPv6 selector is followed by further selectors; payloads with edge contents; inner chains around 32 KB (the Encrypted payload's
\* length crosses 2^15) made of several middle-sized payloads; headers with values strictly inside their ranges (Hdr 6..10)
TsMix(kk, l) == [k |-> kk, sel |-> l]
MoreChains == [i \in 1..Len(PKinds) |-> << Rep(PKinds[i]), Rep(PKinds[i]) >>]
              \o << << Rep("CERTREQ"), Rep("N"), Rep("CERTREQ"), Rep("CERTREQ") >>, << Rep("KE"), Rep("NONCE"), Rep("KE"), Rep("NONCE") >>,
                    << TsMix("TSi", << Sel6(17, 1, 2, 34), Sel4(6, 256, 1, 33) >>), TsMix("TSr", << Sel6(17, 1, 2, 34), Sel4(6, 256, 1, 33) >>) >>,
                    << TsMix("TSr", << Sel6(1, 2, 3, 35), Sel6(4, 5, 6, 36), Sel4(47, 4660, 22136, 36), Sel6(7, 8, 9, 37) >>), TsMix("TSi", << Sel6(1, 2, 3, 35), Sel6(4, 5, 6, 36) >>) >>,
                    << TsMix("TSi", << SelA(8, Zeros(10) \o << 255, 255, 10, 0, 0, 1 >>, Zeros(10) \o << 255, 255, 10, 0, 0, 9 >>), SelA(7, Zeros(4), Const(4, 255)) >>) >>,
                    << [k |-> "IDi", idt |-> 2, data |-> Edge("trail0", 9, 1)], [k |-> "NONCE", data |-> Edge("lead0", 16, 2)], [k |-> "V", data |-> Edge("sp", 9, 3)] >>,
                    << [k |-> "EAP", eap |-> [code |-> 2, id |-> 128, m |-> "identity", data |-> Edge("trail00", 9, 4)]], [k |-> "KE", grp |-> 14, data |-> Edge("lead00", 9, 5)] >>,
                    << Rep("D"), [k |-> "D", proto |-> 3, spisz |-> 4, num |-> 3, spis |-> << D(4, 1), D(4, 1), D(4, 2) >>] >>,
                    << Rep("N") >>, << Rep("N") >>, << Rep("N") >>, << Rep("N") >>, << Rep("N") >>,
                    << [k |-> "CERT", enc |-> 4, data |-> D(17000, 1)], [k |-> "CERT", enc |-> 4, data |-> D(15700, 2)], Rep("N") >>,
                    << [k |-> "V", data |-> D(16380, 3)], [k |-> "V", data |-> D(16384, 4)] >>,
                    << [k |-> "KE", grp |-> 14, data |-> D(32760, 5)] >> >>
\* messages as the exchanges really carry them, exchange type x request / response x the payload kinds that belong to that exchange in an order
\* of the sender's choice (the ID payload not first, a COOKIE not first, a Delete in INFORMATIONAL): protection does not look at what a message
\* is about
XtChains == << << Rep("N"), Rep("IDi"), Rep("CERTREQ"), Rep("AUTH"), Rep("SA"), Rep("TSi"), Rep("TSr") >>, << Rep("N"), Rep("IDr"), Rep("AUTH"), Rep("SA"), Rep("TSi"), Rep("TSr") >>,
              << Rep("AUTH"), Rep("IDi") >>, << Rep("CERT"), Rep("IDr"), Rep("AUTH") >>, << Rep("SA"), Rep("KE"), Rep("NONCE"), Nt(16390, 16) >>,
              << Rep("EAP"), Rep("IDr") >>, << Rep("V"), Rep("D"), Rep("N") >> >>
XtHdr(j) == [ispi |-> D(8, 20 + j), rspi |-> D(8, 30 + j), maj |-> 2, min |-> 0, xt |-> 34 + (j % 4), flags |-> IF (j \div 4) % 2 = 0 THEN 8 ELSE 32,
             mid |-> << 0, 0, 0, (j \div 8) + 1 >>]
NXt == 8 * Len(XtChains)        \* 4 exchange types x request / response x the chains
XtMsg(q) == XtHdr(q - 1) @@ [payloads |-> XtChains[((q - 1) \div 8) + 1]]
AllChains == ShapeChains \o MoreChains
NPlain == Len(AllChains)
NShapes == NPlain + NXt
MidBig == { i \in 1..NPlain : i > NPlain - 3 }
M(i) == IF i > NPlain THEN XtMsg(i - NPlain)
        ELSE Msg(IF i <= NOld THEN ((i - 1) % 5) + 1 ELSE ((i - 1) % 10) + 1, AllChains[i])

\* variants: 1..8 = round trip with rand class x header mode; 9 = unkeyed fallback; 10.. = reference-built (pad index)
RandOf(v) == << "system", "zero", "ff", "ramp" >>[((v - 1) % 4) + 1]
ModeOf(v) == IF v <= 4 THEN "nil" ELSE "pre"

RoundTripVector(s, r, m, v) ==
  Vector("sk_roundtrip", <<
    SaNew("S", s, KeysOf(s, 1)), SaNew("R", s, KeysOf(s, 1)),
    ProtectStep("C01", "S", r, m, RandOf(v)),
    UnprotectStep("C01", "R", ~r, Ref(3, "wire"), ModeOf(v), AcceptExp(m)),
    UnprotectStep("C02", "R", r, Ref(3, "wire"), ModeOf(v), RejectExp) >>)       \* reflection: same role that produced it

FallbackVector(m) ==
  Vector("sk_fallback", <<
    ProtectStep("C01", "none", TRUE, m, "system"),
    UnprotectStep("C01", "none", FALSE, Ref(1, "wire"), "nil", [panic |-> FALSE, capdiff |-> FALSE, err |-> FALSE, msg |-> Norm(m), decrypts |-> 0]),
    UnprotectStep("C01", "none", TRUE, EncMsg(Norm(m)), "pre", [panic |-> FALSE, capdiff |-> FALSE, err |-> FALSE, msg |-> Norm(m), decrypts |-> 0]) >>)

PadFill(j, n) == CASE j % 4 = 0 -> FillT("zero", n, 0) [] j % 4 = 1 -> FillT("ff", n, 0) [] j % 4 = 2 -> FillT("ramp", n, j) [] OTHER -> FillT("seeded", n, Seed + j)
RefVector(s, r, m, j) ==     \* j-th legal pad length
  LET inner == EncChain(NormChain(m.payloads))
      pls   == { p \in PadLens(Len(inner)) : TRUE }
      pl    == CHOOSE p \in pls : Cardinality({ q \in pls : q < p }) = j - 1
      keys  == KeysOf(s, 1)
      w     == RefProtect(m, s, keys, r, PadFill(j + 1, 16), pl, PadFill(j, pl)) IN
  Vector("sk_reference", <<
    SaNew("R", s, keys),
    UnprotectStep("C06", "R", ~r, w, IF j % 2 = 0 THEN "nil" ELSE "pre", AcceptExp(m)) >>)

\* ---- authentic datagrams whose INSIDE is unusual (C04: unprotection never crashes; C13: skipping / rejecting inside SK; C10: pad octet)
InnerBase == Msg(2, << Rep("IDi"), Rep("N"), Rep("V") >>)
InnerCase(j) ==        \* [first, plain]: first inner type and the plaintext (a block multiple)
  LET ch == PlainChain(NormChain(InnerBase.payloads))
      enc(ps) == EncChainW(ps)
      raw == enc(ch) IN
  CASE j = 1 -> [first |-> FirstOf(InsertUnk(ch, 1, 200, 0, 0, << 1, 2, 3 >>)), plain |-> Padded(enc(InsertUnk(ch, 1, 200, 0, 0, << 1, 2, 3 >>))), cls |-> "accept"]
    [] j = 2 -> [first |-> FirstOf(ch), plain |-> Padded(enc(InsertUnk(ch, 2, 1, 0, 127, << >>))), cls |-> "accept"]
    [] j = 3 -> [first |-> FirstOf(ch), plain |-> Padded(enc(InsertUnk(ch, 4, 49, 0, 0, Zeros(40)))), cls |-> "accept"]
    [] j = 4 -> [first |-> FirstOf(InsertUnk(ch, 1, 200, 1, 0, << 1 >>)), plain |-> Padded(enc(InsertUnk(ch, 1, 200, 1, 0, << 1 >>))), cls |-> "reject"]
    [] j = 5 -> [first |-> FirstOf(ch), plain |-> Padded(enc(InsertUnk(ch, 3, 255, 1, 0, << >>))), cls |-> "reject"]
    [] j = 6 -> [first |-> FirstOf(ch), plain |-> Padded(Take(raw, Len(raw) - 3)), cls |-> "free"]
    [] j = 7 -> [first |-> FirstOf(ch), plain |-> Padded(Overwrite(raw, 3, << 0, 3 >>)), cls |-> "free"]
    [] j = 8 -> [first |-> FirstOf(ch), plain |-> Padded(Overwrite(raw, 3, << 255, 255 >>)), cls |-> "free"]
    [] j = 9 -> [first |-> 33, plain |-> Padded(Zeros(7)), cls |-> "free"]
    [] j = 10 -> [first |-> 0, plain |-> Padded(raw), cls |-> "free"]                                     \* chain announced as empty but octets follow
    [] j = 11 -> [first |-> 46, plain |-> Padded(raw), cls |-> "free"]                                    \* an Encrypted payload inside
    [] j = 12 -> [first |-> FirstOf(ch), plain |-> Padded(<< >>), cls |-> "free"]                            \* announces payloads, carries none
    [] OTHER -> LET v == (j - 13) * 17 % 256 IN                                                           \* arbitrary pad-length octets on 32 octets of plaintext
                [first |-> 40, plain |-> << 0, 0, 0, 20 >> \o D(27, j) \o << v >>, cls |-> IF v + 1 > 32 THEN "reject" ELSE "free"]
\* ---- datagrams too short to be protected messages: an Encrypted payload with a body of 0..48 octets (shorter than IV + one block +
\* checksum for every suite), the bare header announcing a payload, a header followed by a fragment of a generic payload header.
\* Every one is an error -- never a crash, never "neither value nor error", whatever the suite's checksum length (C04, C02).
ShortVector(s, r) ==
  LET keys == KeysOf(s, 1)
      body(n) == EncHeader(InnerBase, 46, 4 + n) \o << 0, 0 >> \o U16(4 + n) \o D(n, 90 + n)
      bare(nx) == EncHeader(InnerBase, nx, 0)
      frag(k) == EncHeader(InnerBase, 46, k) \o Take(<< 0, 0, 0, 40 >>, k)
      onlyunk(chain, first, mode) == UnprotectCaps("C04", "R", ~r, EncHeader(InnerBase, first, Len(chain)) \o chain, mode,
                                                   [panic |-> FALSE, capdiff |-> FALSE, err |-> FALSE, msg |-> Norm([InnerBase EXCEPT !.payloads = << >>])])
      st(w, mode, mustErr) == UnprotectCaps("C04", "R", ~r, w, mode,
                                            IF mustErr THEN [panic |-> FALSE, capdiff |-> FALSE, err |-> TRUE] ELSE [panic |-> FALSE, capdiff |-> FALSE]) IN
  Vector("sk_short", << SaNew("R", s, keys) >>
    \o [i \in 1..49 |-> st(body(i - 1), IF i % 2 = 0 THEN "nil" ELSE "pre", TRUE)]
    \o [i \in 1..49 |-> st(body(i - 1), IF i % 2 = 0 THEN "pre" ELSE "nil", TRUE)]
    \o << st(bare(46), "nil", TRUE), st(bare(46), "pre", TRUE), st(bare(33), "nil", TRUE), st(bare(1), "pre", TRUE), st(bare(255), "nil", TRUE),
          st(bare(0), "nil", FALSE), st(bare(0), "pre", FALSE),
          st(frag(1), "nil", TRUE), st(frag(2), "pre", TRUE), st(frag(3), "nil", TRUE),
          \* nothing but unsupported non-critical payloads in the clear: every one is skipped, the message has no payloads
          onlyunk(<< 0, 0, 0, 4 >>, 50, "nil"), onlyunk(<< 0, 0, 0, 4 >>, 50, "pre"),
          onlyunk(<< 200, 0, 0, 7, 1, 2, 3, 0, 0, 0, 4 >>, 49, "pre"), onlyunk(<< 200, 0, 0, 7, 1, 2, 3, 0, 0, 0, 4 >>, 49, "nil") >>)

\* ---- authentic datagrams with unsupported payloads in the cleartext chain IN FRONT of the Encrypted payload (C13 through unprotection)
OuterPre(j) == CASE j = 1 -> << [t |-> 49, crit |-> 0, body |-> << 1, 2, 3 >>] >>
                 [] j = 2 -> << [t |-> 200, crit |-> 0, body |-> << >>], [t |-> 255, crit |-> 0, body |-> Zeros(33)] >>
                 [] OTHER -> << [t |-> 50, crit |-> 1, body |-> << 9 >>] >>
OuterVector(s, r, j) ==
  LET keys == KeysOf(s, 1) ch == PlainChain(NormChain(InnerBase.payloads))
      w == RefProtectOuter(InnerBase, OuterPre(j), FirstOf(ch), Padded(EncChainW(ch)), s, keys, r, PadFill(j + 3, 16)) IN
  Vector("sk_outer", <<
    SaNew("R", s, keys),
    UnprotectCaps("C13", "R", ~r, w, IF j % 2 = 0 THEN "nil" ELSE "pre",
                  IF j <= 2 THEN AcceptExp(InnerBase) ELSE [panic |-> FALSE, capdiff |-> FALSE, err |-> TRUE]) >>)
\* the encrypted chain consists of unsupported non-critical payloads only: the message decodes to an empty payload list
OnlyUnkVector(s, r) ==
  LET keys == KeysOf(s, 1)
      unk(t, nx, body) == << nx, 0 >> \o U16(4 + Len(body)) \o body
      plain == Padded(unk(200, 49, << 1, 2, 3 >>) \o unk(49, 0, << >>))
      w == RefProtectRaw(InnerBase, 200, plain, s, keys, r, PadFill(9, 16)) IN
  Vector("sk_onlyunk", << SaNew("R", s, keys),
    UnprotectCaps("C13", "R", ~r, w, "nil", AcceptExp([InnerBase EXCEPT !.payloads = << >>])),
    UnprotectCaps("C13", "R", ~r, w, "pre", AcceptExp([InnerBase EXCEPT !.payloads = << >>])) >>)
\* an AUTHENTIC datagram whose Encrypted payload is IV + checksum only (no ciphertext block at all): the cipher gets 16 octets
NoBlockVector(s, r) ==
  LET keys == KeysOf(s, 1) w == RefProtectRaw(InnerBase, 0, << >>, s, keys, r, PadFill(5, 16)) IN
  Vector("sk_noblock", << SaNew("R", s, keys),
    UnprotectCaps("C04", "R", ~r, w, "nil", [panic |-> FALSE, capdiff |-> FALSE, err |-> TRUE]),
    UnprotectCaps("C04", "R", ~r, w, "pre", [panic |-> FALSE, capdiff |-> FALSE, err |-> TRUE]) >>)
NInner == 12 + 16 + 3 + 3
InnerVector(s, r, j) ==
  IF j = 32 THEN OnlyUnkVector(s, r) ELSE IF j = 33 THEN ShortVector(s, r) ELSE IF j = 34 THEN NoBlockVector(s, r) ELSE
  IF j > 28 THEN OuterVector(s, r, j - 28) ELSE
  LET c == InnerCase(j) keys == KeysOf(s, 1)
      w == RefProtectRaw(InnerBase, c.first, c.plain, s, keys, r, PadFill(j, 16)) IN
  Vector("sk_inner", <<
    SaNew("R", s, keys),
    UnprotectCaps(IF j <= 5 THEN "C13" ELSE "C04", "R", ~r, w, IF j % 2 = 0 THEN "nil" ELSE "pre",
                  CASE c.cls = "accept" -> AcceptExp(InnerBase) [] c.cls = "reject" -> [panic |-> FALSE, capdiff |-> FALSE, err |-> TRUE]
                    [] OTHER -> [panic |-> FALSE, capdiff |-> FALSE]) >>)

\* ---- messages whose protected form fits the 16-bit payload length only with (near-)minimal padding: inner chains of
\* 65472..65487 octets, and chains of 65488..65511 octets that cannot fit at all.  Protection may legally refuse the former if it
\* pads more and must refuse the latter; whenever it produces a datagram, both length fields state its real sizes (lenok) and the
\* peer accepts it.
NBig == 40
BigInner(j) == Msg(3, << [k |-> "V", data |-> D(65464 + j, 6)] >>)          \* inner chain = 65468 + j octets, j in 4..43
BigVector(s, r, j) ==
  LET m == BigInner(j) IN
  Vector("sk_big", <<
    SaNew("S", s, KeysOf(s, 1)), SaNew("R", s, KeysOf(s, 1)),
    Step("protect", IF j > 19 THEN "C06" ELSE "C01", FALSE, [sa |-> "S", role |-> r, msg |-> m, rand |-> "system"],
         IF j > 19 THEN [panic |-> FALSE, err |-> TRUE, lenok |-> TRUE] ELSE [panic |-> FALSE, lenok |-> TRUE]),
    OptStep(UnprotectStep("C01", "R", ~r, Ref(3, "wire"), IF j % 2 = 0 THEN "nil" ELSE "pre", AcceptExp(m))) >>)

\* ---- many messages protected on ONE long-lived object in one role (sizes vary so that pad lengths vary), each accepted by the peer
\* (what the messages carry is of no concern to an SA key object: among them requests that delete the IKE SA itself, Delete payloads
\*  for Child SAs, and -- the five headers come round again and again -- many messages with the same message ID)
SeqMsg(i) == Msg((i % 5) + 1, IF i % 5 = 0 THEN << [k |-> "D", proto |-> 1, spisz |-> 0, num |-> 0, spis |-> << >>] >>
                              ELSE IF i % 7 = 3 THEN << Rep("D"), Rep("V") >>
                              ELSE << [k |-> "NONCE", data |-> D((i * 7) % 23, i)], Rep("N") >>)
\* every fourth message also arrives from an independent implementation holding the same keys, with a pad length of its own choice
\* (32 inner octets: 15, 31, ... 255 are legal)
SeqRefMsg(i) == Msg((i % 5) + 1, << [k |-> "NONCE", data |-> D(13, i)], Rep("N") >>)
SeqRefPad(j) == << 255, 15, 239, 31 >>[((j \div 4) % 4) + 1]
\* every sixth message is preceded by a protect during which the random source fails (at its first, second or third read): that
\* attempt gives an error -- or, if the failure is not reached, a datagram -- and the object goes on as if nothing had happened
SeqFault(j, once) == [mode |-> IF once THEN "failonce" ELSE "fail", seed |-> j, failat |-> (j \div 6) % 3]
RECURSIVE SeqSteps(_, _, _, _, _, _)
SeqSteps(SeqSuite, r, j, n, at, props) ==        \* at: number of steps emitted so far (the two SaNew included)
  IF j > n THEN << >>
  ELSE LET fstep(pi, once) ==
             Step("protect", props[pi], FALSE, [sa |-> "S", role |-> r, msg |-> SeqMsg(j + 100), rand |-> SeqFault(j, once)],
                  IF SeqFault(j, once).failat = 0 THEN [panic |-> FALSE, err |-> TRUE, faultok |-> TRUE] ELSE [panic |-> FALSE, faultok |-> TRUE])
           \* (for each property the sequence serves: a failure of that one read only, and a source that stays broken from it on)
           fault == IF j % 6 = 0 THEN << fstep(1, TRUE), fstep(2, TRUE), fstep(1, FALSE), fstep(2, FALSE) >> ELSE << >>
           k == at + Len(fault)
           \* every fifth message is also offered cut down to its 28 header octets (it still announces an Encrypted payload): refused
           cut == IF j % 5 = 0 THEN << UnprotectStep(props[2], "R", ~r, Slice(Ref(k + 1, "wire"), 0, 28), IF j % 2 = 0 THEN "nil" ELSE "pre", RejectExp) >> ELSE << >>
           ref == IF j % 4 = 0
                    THEN << UnprotectStep(props[1 + ((j \div 4) % 2)], "R", ~r,
                                          RefProtect(SeqRefMsg(j), SeqSuite, KeysOf(SeqSuite, 1), r, PadFill(j + 1, 16), SeqRefPad(j), PadFill(j, SeqRefPad(j))),
                                          IF j % 8 = 0 THEN "nil" ELSE "pre", AcceptExp(SeqRefMsg(j))) >>
                    ELSE << >> IN
       fault \o << ProtectStep(props[1], "S", r, SeqMsg(j), "system"),
                   UnprotectStep(props[2], "R", ~r, Ref(k + 1, "wire"), "nil", AcceptExp(SeqMsg(j))) >>
             \o cut \o ref \o SeqSteps(SeqSuite, r, j + 1, n, k + 2 + Len(cut) + Len(ref), props)
SeqVector(s, r, n) ==
  LET props == IF OnlySeq # "" THEN << OnlySeq, OnlySeq >> ELSE << "C06", "C01" >> IN
  Vector("sk_sequence", << SaNew("S", s, KeysOf(s, 1)), SaNew("R", s, KeysOf(s, 1)) >> \o SeqSteps(s, r, 1, n, 2, props))

NVariants == 9 + 16 + NInner + NBig + 1
Init == stage = 0 /\ su = 0 /\ role = TRUE /\ mi = 0 /\ variant = 0
Next ==
  \/ stage = 0 /\ stage' = 1 /\ su' \in 1..9 /\ role' \in BOOLEAN /\ UNCHANGED << mi, variant >>
  \/ stage = 1 /\ stage' = 2 /\ mi' \in 1..NShapes /\ UNCHANGED << su, role, variant >>
  \/ stage = 2 /\ stage' = 3 /\ UNCHANGED << su, role, mi >>
     /\ variant' \in { v \in 1..NVariants :
                         IF OnlySeq # "" THEN v = NVariants /\ mi = 1 ELSE
                         \* quick tier: thin out the product, every suite x role still meets every shape and every variant class
                         \/ Thorough
                         \/ (v <= 8 /\ mi <= NOld /\ (v + mi + su) % 4 = 0)
                         \/ (v <= 8 /\ mi > NOld /\ (v + mi + su) % 8 = 0)
                         \/ (v = 9 /\ su = 1)
                         \/ (v >= 10 /\ v <= 25 /\ mi <= 6 /\ (v + mi + su) % 4 = 0)
                         \/ (v >= 10 /\ v <= 25 /\ mi > NOld /\ (v + mi + su) % 16 = 0)
                         \/ (v > 25 /\ v <= 25 + NInner /\ mi = 1 /\ (v + su) % 3 = 0)
                         \/ (v > 25 + NInner /\ v <= 25 + NInner + NBig /\ mi = 1 /\ (v + su) % 8 = 0)
                         \/ (v = 25 + NInner + NBig + 1 /\ mi = 1) }
     /\ (variant' > 25 => mi = 1)
     /\ (variant' >= 10 /\ variant' <= 25 => Len(EncChain(NormChain(M(mi).payloads))) < 4000 \/ (mi \in MidBig /\ (Thorough => (variant' + mi + su) % 16 = 0)))
  \/ stage = 3 /\ UNCHANGED << stage, su, role, mi, variant >>

Vec == IF variant <= 8 THEN RoundTripVector(SuiteSeq[su], role, M(mi), variant)
       ELSE IF variant = 9 THEN FallbackVector(M(mi))
       ELSE IF variant <= 25 THEN RefVector(SuiteSeq[su], role, M(mi), variant - 9)
       ELSE IF variant <= 25 + NInner THEN InnerVector(SuiteSeq[su], role, variant - 25)
       ELSE IF variant <= 25 + NInner + NBig THEN BigVector(SuiteSeq[su], role, variant - 25 - NInner + 3)
       ELSE SeqVector(SuiteSeq[su], role, IF Thorough THEN (IF OnlySeq # "" THEN 150 ELSE 60) ELSE (IF OnlySeq # "" THEN 40 ELSE 24))
Emit == stage = 3 => PrintT(ToJson(Vec))
Sound == stage = 3 /\ variant <= 25 => Encodable(M(mi)) /\ FitsProtected(M(mi), SuiteSeq[su])
=============================================================================
