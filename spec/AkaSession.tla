------------------------------ MODULE AkaSession ------------------------------
(***************************************************************************)
(* The EAP-AKA' dialogue carried inside IKE_AUTH (C14 C15 C16), abstractly: *)
(* a server and a peer share K_aut (derived by PRF' from IK', CK' and the   *)
(* identity); the sender of a packet chooses an attribute ORDER (RFC 4187   *)
(* does not fix one) and possibly non-zero reserved octets, computes AT_MAC *)
(* over the packet as it goes on the wire with the MAC field zeroed; an     *)
(* adversary may alter the packet; the receiver decodes it and recomputes   *)
(* AT_MAC.                                                                  *)
(* Knob MacOverWire: the receiver computes the code over the octets it      *)
(* received (TRUE) or over its own re-serialisation of the decoded packet   *)
(* -- ascending attribute types, zero reserved octets (FALSE).  With FALSE  *)
(* TLC finds the counterexample: an honest packet in another order is       *)
(* rejected.                                                                *)
(***************************************************************************)
EXTENDS Naturals, Sequences, FiniteSets, TLC

CONSTANTS MacOverWire, SameKey

Orders == {"ascending", "other"}         \* wire order of the attributes chosen by the sender
Rsvs == {"zero", "nonzero"}              \* reserved octets chosen by the sender
VARIABLES pc, wire, tampered, verdict, ops
vars == << pc, wire, tampered, verdict, ops >>

Init == pc = "build" /\ wire = [order |-> "ascending", rsv |-> "zero", mac |-> "none"] /\ tampered = FALSE /\ verdict = "none" /\ ops = << >>

\* the MAC is a function of (key, exact octets); octets are abstracted to (order, rsv, tampered)
MacOf(key, order, rsv, tamp) == << key, order, rsv, tamp >>

Send(o, r) == /\ pc = "build" /\ pc' = "sent" /\ ops' = Append(ops, << "send", o, r >>)
              /\ wire' = [order |-> o, rsv |-> r, mac |-> MacOf("k", o, r, FALSE)]
              /\ UNCHANGED << tampered, verdict >>
Tamper == /\ pc = "sent" /\ ~tampered /\ tampered' = TRUE /\ ops' = Append(ops, << "tamper" >>) /\ UNCHANGED << pc, wire, verdict >>
Receive == /\ pc = "sent" /\ pc' = "done" /\ ops' = Append(ops, << "receive" >>)
           /\ LET key == IF SameKey THEN "k" ELSE "k2"
                  mine == IF MacOverWire THEN MacOf(key, wire.order, wire.rsv, tampered)
                                         ELSE MacOf(key, "ascending", "zero", tampered)      \* re-serialised
              IN verdict' = IF mine = wire.mac THEN "accept" ELSE "reject"
           /\ UNCHANGED << wire, tampered >>
Next == (\E o \in Orders, r \in Rsvs : Send(o, r)) \/ Tamper \/ Receive

ReceiverAgrees == (pc = "done" /\ ~tampered /\ SameKey) => verdict = "accept"       \* C15
Sensitive      == (pc = "done" /\ (tampered \/ ~SameKey)) => verdict = "reject"     \* C15
=============================================================================
