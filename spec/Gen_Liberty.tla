----------------------------- MODULE Gen_Liberty -----------------------------
(* C05 direction 2: datagrams of the independent encoder using the liberties RFC 7296 grants a sender:         *)
(* critical bit and reserved bits on supported payloads, non-zero RESERVED fields, CP attribute R bit,         *)
(* transforms of a proposal in any order, EAP-AKA' attributes in any order with non-zero reserved octets.      *)
EXTENDS CodecLife, Pools
VARIABLES stage, kind, lib

Perms(n) == { f \in [1..n -> 1..n] : \A i, j \in 1..n : i # j => f[i] # f[j] }
Permute(s, f) == [i \in 1..Len(s) |-> s[f[i]]]

R3s == { << 1, 0, 0 >>, << 255, 255, 255 >>, << 0, 0, 128 >> }
\* W-form variants of one payload
Variants(p) ==
  LET w == PayloadPlain(p)
      gen == { [w EXCEPT !.crit = c, !.rsv = r] : c \in {0, 1}, r \in {0, 1, 127} } IN
  gen \cup
  CASE p.k = "KE" -> { [w EXCEPT !.r = x] : x \in {1, 256, 65535} }
    [] p.k \in {"IDi", "IDr", "AUTH", "TSi", "TSr"} -> { [w EXCEPT !.r = x, !.crit = 1] : x \in R3s }
    [] p.k = "CP" -> { [w EXCEPT !.r = x] : x \in R3s }
                     \cup { [w EXCEPT !.attrs = [i \in 1..Len(w.attrs) |-> [w.attrs[i] EXCEPT !.r = 1]], !.rsv = 127] }
    [] p.k = "SA" -> { [w EXCEPT !.props = [i \in 1..Len(w.props) |->
                           [w.props[i] EXCEPT !.r = x, !.tr = [j \in 1..Len(w.props[i].tr) |-> [w.props[i].tr[j] EXCEPT !.r1 = y, !.r2 = x]]]]] :
                         x \in {0, 1, 255}, y \in {0, 128} }
    [] p.k = "EAP" -> IF w.eap.m # "aka" THEN {}
                      ELSE { [w EXCEPT !.eap.rsv = x, !.eap.attrs = [i \in 1..Len(w.eap.attrs) |->
                                 IF w.eap.attrs[i].t \in AkaFixed16 \cup {AT_CHECKCODE} THEN [w.eap.attrs[i] EXCEPT !.rsv = y] ELSE w.eap.attrs[i]]] :
                               x \in {0, 1, 65535}, y \in {0, 257, 65535} }
                           \cup { [w EXCEPT !.eap.attrs = Permute(w.eap.attrs, f)] : f \in Perms(Len(w.eap.attrs)) }
    [] OTHER -> {}

\* SA payloads with interleaved transforms
SAInterleavings ==
  LET mk(trs) == [k |-> "SA", props |-> << Prop(1, 1, 8, trs) >>]
      TF == << TrTV(1, 12, 14, 128), TrNone(2, 2), TrTV(1, 12, 14, 256), TrNone(3, 2), TrNone(2, 5) >> IN
  { [PayloadPlain(mk(TA)) EXCEPT !.props = << [PayloadPlain(mk(TA)).props[1] EXCEPT !.tr = Permute(@, f)] >>] : f \in Perms(4) }
  \cup { [PayloadPlain(mk(TF)) EXCEPT !.props = << [PayloadPlain(mk(TF)).props[1] EXCEPT !.tr = Permute(@, f)] >>] : f \in Perms(5) }

\* long transform lists (10, 13, 16, 32 and 250 transforms, several of each type) in orders other than by type: reversed, rotated,
\* in strides coprime to their length (an interleaving that leaves no two neighbours in place).  The value a user holds keeps the wire
\* order WITHIN each type (Norm is a stable sort by type) -- an ordering step that is not stable only shows on lists longer than a dozen
Rev(n) == [i \in 1..n |-> n + 1 - i]
Rot(n, k) == [i \in 1..n |-> ((i - 1 + k) % n) + 1]
Stride(n, k) == [i \in 1..n |-> (((i - 1) * k) % n) + 1]
T13 == TB \o << TrTV(1, 12, 14, 128), TrNone(2, 7), TrNone(3, 5) >>
T16 == T13 \o << TrNone(4, 5), TrNone(2, 6), TrTV(1, 13, 14, 192) >>
T250 == [i \in 1..250 |-> TB[((i - 1) \div 25) + 1]]
LongOrders(n) == { Rev(n), Rot(n, 1), Rot(n, n \div 2), Stride(n, 3), Stride(n, 7), Stride(n, n - 1) }
SALongOrders ==
  LET mk(trs) == PayloadPlain([k |-> "SA", props |-> << Prop(1, 1, 8, trs) >>]) IN
  UNION { { [mk(trs) EXCEPT !.props = << [mk(trs).props[1] EXCEPT !.tr = Permute(@, f)] >>] : f \in LongOrders(Len(trs)) } :
          trs \in ({ TB, T13, T16, TFX } \cup (IF Thorough THEN { T250, TGX } ELSE { })) }
  \cup { [mk(T250) EXCEPT !.props = << [mk(T250).props[1] EXCEPT !.tr = Permute(@, Stride(250, 7))] >>] }

LibKinds == PKindSet \cup {"SAperm", "SAlong", "EAPaka4", "all"}
EapFour == [k |-> "EAP", eap |-> Aka(2, 77, 1, << AV(AT_RAND, 16), AV(AT_RES, 5), AV(AT_MAC, 16), AV(AT_KDF, 2) >>)]
LibSet(kd) ==
  CASE kd = "SAperm" -> { << x >> : x \in SAInterleavings }
    [] kd = "SAlong" -> { << x >> : x \in SALongOrders }
    [] kd = "EAPaka4" -> { << x >> : x \in Variants(EapFour) }
    [] kd = "all" -> { [i \in 1..Len(PKinds) |-> [PayloadPlain(Rep(PKinds[i])) EXCEPT !.crit = c, !.rsv = r]] : c \in {0, 1}, r \in {0, 127} }
    [] OTHER -> { << x >> : x \in Variants(Rep(kd)) } \cup { << PayloadPlain(Rep("N")), x, PayloadPlain(Rep("V")) >> : x \in Variants(Rep(kd)) }

Init == stage = 0 /\ kind = "" /\ lib = << >>
Next == \/ stage = 0 /\ stage' = 1 /\ kind' \in LibKinds /\ lib' = << >>
        \/ stage = 1 /\ stage' = 2 /\ kind' = kind /\ lib' \in LibSet(kind)
        \/ stage = 2 /\ UNCHANGED << stage, kind, lib >>
W == [PlainMsg(Msg(1, << >>)) EXCEPT !.payloads = lib]
Emit == stage = 2 => PrintT(ToJson(LibertyVector(W)))
Sound == stage = 2 => LibertySound(W)
=============================================================================
