----------------------------- MODULE Gen_Liberty -----------------------------
(* C05 direction 2: datagrams of the independent encoder using the liberties RFC 7296 grants a sender:         *)
(* critical bit and reserved bits on supported payloads, non-zero RESERVED fields, CP attribute R bit,         *)
(* transforms of a proposal in any order, EAP-AKA' attributes in any order with non-zero reserved octets.      *)
EXTENDS CodecLife, Pools
VARIABLES stage, kind, lib

Perms(n) == { f \in [1..n -> 1..n] : \A i, j \in 1..n : i # j => f[i] # f[j] }
Permute(s, f) == [i \in 1..Len(s) |-> s[f[i]]]

R3s == { << 1, 0, 0 >>, << 255, 255, 255 >>, << 0, 0, 128 >> }
\* W-form variants of one payload
Variants(p) ==
  LET w == PayloadPlain(p)
      gen == { [w EXCEPT !.crit = c, !.rsv = r] : c \in {0, 1}, r \in {0, 1, 127} } IN
  gen \cup
  CASE p.k = "KE" -> { [w EXCEPT !.r = x] : x \in {1, 256, 65535} }
    [] p.k \in {"IDi", "IDr", "AUTH", "TSi", "TSr"} -> { [w EXCEPT !.r = x, !.crit = 1] : x \in R3s }
    [] p.k = "CP" -> { [w EXCEPT !.r = x] : x \in R3s }
                     \cup { [w EXCEPT !.attrs = [i \in 1..Len(w.attrs) |-> [w.attrs[i] EXCEPT !.r = 1]], !.rsv = 127] }
    [] p.k = "SA" -> { [w EXCEPT !.props = [i \in 1..Len(w.props) |->
                           [w.props[i] EXCEPT !.r = x, !.tr = [j \in 1..Len(w.props[i].tr) |-> [w.props[i].tr[j] EXCEPT !.r1 = y, !.r2 = x]]]]] :
                         x \in {0, 1, 255}, y \in {0, 128} }
    [] p.k = "EAP" -> IF w.eap.m # "aka" THEN {}
                      ELSE { [w EXCEPT !.eap.rsv = x, !.eap.attrs = [i \in 1..Len(w.eap.attrs) |->
                                 IF w.eap.attrs[i].t \in AkaFixed16 \cup {AT_CHECKCODE} THEN [w.eap.attrs[i] EXCEPT !.rsv = y] ELSE w.eap.attrs[i]]] :
                               x \in {0, 1, 65535}, y \in {0, 257, 65535} }
                           \cup { [w EXCEPT !.eap.attrs = Permute(w.eap.attrs, f)] : f \in Perms(Len(w.eap.attrs)) }
    [] OTHER -> {}

\* SA payloads with interleaved transforms
SAInterleavings ==
  LET mk(trs) == [k |-> "SA", props |-> << Prop(1, 1, 8, trs) >>]
      TF == << TrTV(1, 12, 14, 128), TrNone(2, 2), TrTV(1, 12, 14, 256), TrNone(3, 2), TrNone(2, 5) >> IN
  { [PayloadPlain(mk(TA)) EXCEPT !.props = << [PayloadPlain(mk(TA)).props[1] EXCEPT !.tr = Permute(@, f)] >>] : f \in Perms(4) }
  \cup { [PayloadPlain(mk(TF)) EXCEPT !.props = << [PayloadPlain(mk(TF)).props[1] EXCEPT !.tr = Permute(@, f)] >>] : f \in Perms(5) }

LibKinds == PKindSet \cup {"SAperm", "EAPaka4", "all"}
EapFour == [k |-> "EAP", eap |-> Aka(2, 77, 1, << AV(AT_RAND, 16), AV(AT_RES, 5), AV(AT_MAC, 16), AV(AT_KDF, 2) >>)]
LibSet(kd) ==
  CASE kd = "SAperm" -> { << x >> : x \in SAInterleavings }
    [] kd = "EAPaka4" -> { << x >> : x \in Variants(EapFour) }
    [] kd = "all" -> { [i \in 1..Len(PKinds) |-> [PayloadPlain(Rep(PKinds[i])) EXCEPT !.crit = c, !.rsv = r]] : c \in {0, 1}, r \in {0, 127} }
    [] OTHER -> { << x >> : x \in Variants(Rep(kd)) } \cup { << PayloadPlain(Rep("N")), x, PayloadPlain(Rep("V")) >> : x \in Variants(Rep(kd)) }

Init == stage = 0 /\ kind = "" /\ lib = << >>
Next == \/ stage = 0 /\ stage' = 1 /\ kind' \in LibKinds /\ lib' = << >>
        \/ stage = 1 /\ stage' = 2 /\ kind' = kind /\ lib' \in LibSet(kind)
        \/ stage = 2 /\ UNCHANGED << stage, kind, lib >>
W == [PlainMsg(Msg(1, << >>)) EXCEPT !.payloads = lib]
Emit == stage = 2 => PrintT(ToJson(LibertyVector(W)))
Sound == stage = 2 => LibertySound(W)
=============================================================================
