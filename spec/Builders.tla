------------------------------- MODULE Builders -------------------------------
(***************************************************************************)
(* C19.  The constructors and builders of message/build.go as a state      *)
(* machine over the payload container being built: every action is one     *)
(* public call; its post-state is the pre-state with exactly one payload   *)
(* (or one sub-element of the last payload) appended whose fields equal    *)
(* the arguments.  The 3GPP helpers are specified from TS 24.502 9.3.      *)
(* TLC explores builder programs; each is replayed call by call into the   *)
(* real builders and the container projection compared after every call.   *)
(***************************************************************************)
EXTENDS CodecLife, EapLife

\* ---- post-state of one call.  r.ok = FALSE: the call must report an error and leave the container unchanged.
Last(c) == c[Len(c)]
AppendSub(cont, field, x) == [cont EXCEPT ![Len(cont)] = [@ EXCEPT ![field] = Append(@, x)]]

\* the caller edits the payload it just built (its own object): the first octet of the payload's octet-string field is complemented
FlipFirst(b) == IF Len(b) = 0 THEN b ELSE << 255 - b[1] >> \o Tail(b)
EditPayload(p) ==
  CASE p.k \in {"N", "CERT", "KE", "IDi", "IDr", "AUTH", "NONCE", "CERTREQ", "V"} -> [p EXCEPT !.data = FlipFirst(@)]
    [] p.k = "EAP" -> IF p.eap.m \in {"expanded", "identity", "notification", "nak"} THEN [p EXCEPT !.eap = [@ EXCEPT !.data = FlipFirst(@)]] ELSE p
    [] OTHER -> p

ApplyCall(cont, c) ==
  LET A(p) == [ok |-> TRUE, cont |-> Append(cont, p)] IN
  CASE c.fn = "Reset" -> [ok |-> TRUE, cont |-> << >>]
    [] c.fn = "Edit" -> [ok |-> TRUE, cont |-> IF Len(cont) = 0 THEN cont ELSE [cont EXCEPT ![Len(cont)] = EditPayload(@)]]
    [] c.fn = "NewMessage" -> [ok |-> TRUE, cont |-> cont]        \* the new message retains the container's payload list (see Run)
    [] c.fn = "Notification" -> A([k |-> "N", proto |-> c.proto, ntype |-> c.ntype, spi |-> c.spi, data |-> c.data])
    [] c.fn = "Certificate" -> A([k |-> "CERT", enc |-> c.enc, data |-> c.data])
    [] c.fn = "Encrypted" -> A([k |-> "SK", next |-> c.next, data |-> c.data])
    [] c.fn = "KeyExchange" -> A([k |-> "KE", grp |-> c.grp, data |-> c.data])
    [] c.fn = "IdentificationInitiator" -> A([k |-> "IDi", idt |-> c.idt, data |-> c.data])
    [] c.fn = "IdentificationResponder" -> A([k |-> "IDr", idt |-> c.idt, data |-> c.data])
    [] c.fn = "Authentication" -> A([k |-> "AUTH", meth |-> c.meth, data |-> c.data])
    [] c.fn = "Nonce" -> A([k |-> "NONCE", data |-> c.data])
    [] c.fn = "Configuration" -> A([k |-> "CP", cft |-> c.cft, attrs |-> << >>])
    [] c.fn = "ConfigurationAttribute" -> [ok |-> TRUE, cont |-> AppendSub(cont, "attrs", [t |-> c.t, v |-> c.v])]
    [] c.fn = "TrafficSelectorInitiator" -> A([k |-> "TSi", sel |-> << >>])
    [] c.fn = "TrafficSelectorResponder" -> A([k |-> "TSr", sel |-> << >>])
    [] c.fn = "IndividualTrafficSelector" ->
         [ok |-> TRUE, cont |-> AppendSub(cont, "sel", [tst |-> c.tst, proto |-> c.proto, sp |-> c.sp, ep |-> c.ep, sa |-> c.sa, ea |-> c.ea])]
    [] c.fn = "SecurityAssociation" -> A([k |-> "SA", props |-> << >>])
    [] c.fn = "Proposal" -> [ok |-> TRUE, cont |-> AppendSub(cont, "props", [num |-> c.num, proto |-> c.proto, spi |-> c.spi, tr |-> << >>])]
    [] c.fn = "Transform" ->
         LET sa == Last(cont) n == Len(sa.props)
             t  == [c |-> c.c, tt |-> c.tt, tid |-> c.tid, attr |-> c.attr, at |-> c.at, av |-> c.av, avl |-> c.avl] IN
         [ok |-> TRUE, cont |-> [cont EXCEPT ![Len(cont)] = [sa EXCEPT !.props = [sa.props EXCEPT ![n] = [@ EXCEPT !.tr = Append(@, t)]]]]]
    \* the Reset of a sub-container (attributes of a CP payload, selectors of a TS payload, proposals of an SA payload, one transform
    \* list of the last proposal): that list is empty afterwards, everything else is as it was
    [] c.fn = "SubReset" ->
         LET p == Last(cont) IN
         [ok |-> TRUE, cont |-> [cont EXCEPT ![Len(cont)] =
            CASE c.lvl = "attrs" -> [p EXCEPT !.attrs = << >>]
              [] c.lvl = "sel" -> [p EXCEPT !.sel = << >>]
              [] c.lvl = "props" -> [p EXCEPT !.props = << >>]
              [] c.lvl = "tr" -> [p EXCEPT !.props = [@ EXCEPT ![Len(p.props)] = [@ EXCEPT !.tr = SelectSeq(@, LAMBDA t : t.c # c.c)]]]]]
    [] c.fn = "DeletePayload" -> A([k |-> "D", proto |-> c.proto, spisz |-> c.spisz, num |-> c.num, spis |-> c.spis])
    [] c.fn = "EAP" -> A([k |-> "EAP", eap |-> [code |-> c.code, id |-> c.id, m |-> "none"]])
    [] c.fn = "EAPSuccess" -> A([k |-> "EAP", eap |-> [code |-> 3, id |-> c.id, m |-> "none"]])
    [] c.fn = "EAPfailure" -> A([k |-> "EAP", eap |-> [code |-> 4, id |-> c.id, m |-> "none"]])
    \* BuildEAP followed by BuildEapExpanded for the type data (what BuildEAP5GStart does, with the caller's vendor id / type / data)
    [] c.fn = "EAPExpanded" -> A([k |-> "EAP", eap |-> [code |-> c.code, id |-> c.id, m |-> "expanded", vid |-> c.vid, vtype |-> c.vtype, data |-> c.data]])
    [] c.fn = "EAP5GStart" -> A([k |-> "EAP", eap |-> Eap5GStart(c.id)])
    [] c.fn = "EAP5GNAS" -> IF Len(c.nas) = 0 \/ Len(c.nas) > 65535 THEN [ok |-> FALSE, cont |-> cont]
                            ELSE A([k |-> "EAP", eap |-> Eap5GNas(c.id, c.nas)])
    [] c.fn = "Notify5G_QOS_INFO" ->
         LET n == 3 + Len(c.qfis) + 1 + (IF c.dscpi THEN 1 ELSE 0) IN
         IF Len(c.qfis) > 255 \/ n > 255 THEN [ok |-> FALSE, cont |-> cont]
         ELSE A([k |-> "N", proto |-> 0, ntype |-> N_5G_QOS_INFO, spi |-> << >>, data |-> QosInfoData(c.pdu, c.qfis, c.dcsi, c.dscpi, c.dscp)])
    [] c.fn = "NotifyNAS_IP4_ADDRESS" -> A([k |-> "N", proto |-> 0, ntype |-> N_NAS_IP4_ADDRESS, spi |-> << >>, data |-> c.ip])
    [] c.fn = "NotifyUP_IP4_ADDRESS" -> A([k |-> "N", proto |-> 0, ntype |-> N_UP_IP4_ADDRESS, spi |-> << >>, data |-> c.ip])
    [] c.fn = "NotifyNAS_TCP_PORT" -> A([k |-> "N", proto |-> 0, ntype |-> N_NAS_TCP_PORT, spi |-> << >>, data |-> U16(c.port)])

SubBuilders == {"ConfigurationAttribute", "IndividualTrafficSelector", "Proposal", "Transform", "SubReset"}
CallEnabled(cont, c) ==
  IF c.fn \notin SubBuilders THEN TRUE
  ELSE IF Len(cont) = 0 THEN FALSE
  ELSE CASE c.fn = "ConfigurationAttribute" -> Last(cont).k = "CP"
         [] c.fn = "IndividualTrafficSelector" -> Last(cont).k \in {"TSi", "TSr"}
         [] c.fn = "Proposal" -> Last(cont).k = "SA"
         [] c.fn = "Transform" -> IF Last(cont).k = "SA" THEN Len(Last(cont).props) > 0 ELSE FALSE
         [] c.fn = "SubReset" -> CASE c.lvl = "attrs" -> Last(cont).k = "CP"
                                   [] c.lvl = "sel" -> Last(cont).k \in {"TSi", "TSr"}
                                   [] c.lvl = "props" -> Last(cont).k = "SA"
                                   [] c.lvl = "tr" -> IF Last(cont).k = "SA" THEN Len(Last(cont).props) > 0 ELSE FALSE

\* ---- what encoding the built container must give: the reference octets when every payload is in the
\* encodable domain; an error (never a truncated field) when an argument exceeds a wire limit
Oversize(p) ==
  \/ p.k \notin {"SA", "TSi", "TSr"} /\ 4 + BodyLen(p) > 65535
  \/ p.k = "N" /\ Len(p.spi) > 255
  \/ p.k = "SA" /\ \E i \in 1..Len(p.props) : Len(p.props[i].spi) > 255
ExpectEncodeBuilt(cont) ==
  IF \A i \in 1..Len(cont) : cont[i].k # "SK" /\ PayloadEncodable(cont[i])
    THEN [panic |-> FALSE, err |-> FALSE, wire |-> EncChain(NormChain(cont))]
  ELSE IF \E i \in 1..Len(cont) : Oversize(cont[i]) THEN [panic |-> FALSE, err |-> TRUE]
  ELSE [panic |-> FALSE]

\* ---- NewMessage / NewHeader (message/message.go, header.go)
NewMessageD(c, cont) ==
  [ispi |-> c.ispi, rspi |-> c.rspi, maj |-> 2, min |-> 0, xt |-> c.xt,
   flags |-> (IF c.response THEN 32 ELSE 0) + (IF c.initiator THEN 8 ELSE 0), mid |-> c.mid, payloads |-> cont]

\* the steps of a builder program, with the expected container after each call and the expected contents of every
\* message created so far from the container (held): a later call -- in particular after Reset -- must not change them
RECURSIVE RunH(_, _, _, _)
RunH(cont, held, calls, i) ==
  IF i > Len(calls) THEN << >>
  ELSE LET c == calls[i] r == ApplyCall(cont, c) IN
       IF c.fn = "NewMessage"
         THEN << Step("new_message", "C19", FALSE, [call |-> c],
                      [panic |-> FALSE, msg |-> Norm(NewMessageD(c, cont)), isresp |-> c.response, isinit |-> c.initiator]) >>
              \o RunH(cont, Append(held, NormChain(cont)), calls, i + 1)
         ELSE << Step("build", "C19", FALSE, [call |-> c], [panic |-> FALSE, err |-> ~r.ok, cont |-> NormChain(r.cont), held |-> held]) >>
              \o RunH(r.cont, held, calls, i + 1)
Run(cont, calls, i) == RunH(cont, << >>, calls, i)
RECURSIVE Final(_, _)
Final(cont, calls) == IF Len(calls) = 0 THEN cont ELSE Final(ApplyCall(cont, Head(calls)).cont, Tail(calls))

\* NewMessage / NewHeader over the whole argument space that matters to the header: both flags, message IDs at the ends of
\* the range, SPIs zero / non-zero / all ones, exchange types defined or not -- the header carries exactly the arguments
HeaderStep(c) ==
  Step("new_message", "C19", FALSE, [call |-> c],
       [panic |-> FALSE, msg |-> Norm(NewMessageD(c, << >>)), isresp |-> c.response, isinit |-> c.initiator,
        hdr |-> [ispi |-> c.ispi, rspi |-> c.rspi, maj |-> 2, min |-> 0, xt |-> c.xt,
                 flags |-> (IF c.response THEN 32 ELSE 0) + (IF c.initiator THEN 8 ELSE 0), mid |-> c.mid, np |-> c.np, pb |-> TRUE]])
HeaderSweepVector(k) ==
  LET Z8 == << 0, 0, 0, 0, 0, 0, 0, 0 >>
      F8 == << 255, 255, 255, 255, 255, 255, 255, 255 >>
      x == << 0, 34, 35, 36, 37, 43, 255 >>[((k - 1) % 7) + 1]
      r == << << 9, 8, 7, 6, 5, 4, 3, 2 >>, Z8, F8 >>[((k - 1) \div 7) + 1]
      S == { [fn |-> "NewMessage", rep |-> TRUE, ispi |-> i, rspi |-> r, xt |-> x, response |-> rs, initiator |-> it, mid |-> m, np |-> (x * 7 + 33) % 256] :
               i \in { << 1, 2, 3, 4, 5, 6, 7, 8 >>, Z8 },
               rs \in BOOLEAN, it \in BOOLEAN, m \in { << 0, 0, 0, 0 >>, << 0, 0, 0, 1 >>, << 128, 0, 0, 0 >>, << 255, 255, 255, 255 >> } }
      q == SetToSeqAny(S) IN
  Vector("headers", [j \in 1..Len(q) |-> HeaderStep(q[j])])
NHeaderSweeps == 21

BuilderVector(calls, nm) ==
  LET cont == Final(<< >>, calls) IN
  Vector("builders",
    Run(<< >>, calls, 1)
    \o << Step("encode_built", "C19", FALSE, [x |-> 0], ExpectEncodeBuilt(cont)),
          Step("new_message", "C19", FALSE, [call |-> nm],
               [panic |-> FALSE, msg |-> Norm(NewMessageD(nm, cont)), isresp |-> nm.response, isinit |-> nm.initiator]) >>)
=============================================================================
