---------------------------- MODULE Gen_Transforms ----------------------------
(* C11 generation: every advertised algorithm to a transform, over the wire and back; the transform space (identifiers x attribute classes) *)
(* through each of the seven decode functions, directly and after a wire round trip; single-choice IKE and Child proposals.                 *)
EXTENDS Transforms, KeyLife, Pools
VARIABLES stage, kind, id

IdsQuick == (0..40) \cup {255, 256, 1023, 1024, 4108, 32767, 32768, 65535, 13, 8, 76, 140, 268, 524, 3, 6, 10, 18, 34, 66, 130, 258, 16398, 4, 7, 21}
Ids == IF Thorough THEN 0..65535 ELSE IdsQuick

AttrClasses(k, tid) ==
  LET tt == TypeOfKind(k)
      full == tid \in {0, 1, 2, 5, 12, 14, 13, 255}
      kl == {0, 1, 64, 127, 128, 129, 191, 192, 193, 255, 256, 257, 512, 32768, 65535} IN
  { T(tt, tid, "none", 0, 0, << >>), T(tt, tid, "tv", 14, 128, << >>), T(tt, tid, "tv", 14, 256, << >>) }
  \cup (IF ~Thorough \/ full
          THEN { T(tt, tid, "tv", 14, v, << >>) : v \in kl }
               \cup { T(tt, tid, "tv", at, 128, << >>) : at \in {0, 1, 13, 15, 142, 270, 1038, 16398, 32766, 32767} \cup { 14 + 128 * j : j \in {1, 2, 3, 100, 255} } }
               \cup { T(tt, tid, "tlv", 14, 0, v) : v \in { << 0, 128 >>, << 128 >>, << 1, 0 >>, << 0, 0, 0, 128 >> } }
               \* TLV values whose LENGTH is a key size (the length half-word must not be taken for the value)
               \cup { T(tt, tid, "tlv", 14, 0, D(n, 14)) : n \in {16, 24, 32, 128, 192, 256} }
          ELSE {})

IdVector(k, tid) ==
  LET cs == SetToSeqAny(AttrClasses(k, tid)) IN
  Vector("transforms", [i \in 1..(2 * Len(cs)) |-> FromStep(k, cs[((i - 1) \div 2) + 1], i % 2 = 0)])

AdvVector(k) ==
  LET ns == SetToSeqAny(Advertised(k)) IN
  Vector("advertised", [i \in 1..Len(ns) |-> ToStep(k, ns[i])]
                       \o [i \in 1..Len(ns) |-> FromStep(k, ToTransform(k, ns[i]), TRUE)]
                       \o [i \in 1..Len(ns) |-> FromStep(k, ToTransform(k, ns[i]), FALSE)])

\* ---- transforms as they can ARRIVE (W-form: any number of attributes per transform, several transforms and proposals in one SA
\* payload).  Whatever a decoder does with attributes beyond the first, the mapping never yields an algorithm whose identifier or key
\* size the transform does not carry: allowed = "unsupported", or -- for AES-CBC -- a size named by one of ITS OWN fixed-length Key
\* Length attributes; a transform is judged by its own octets, never by those of a neighbour decoded before it
WA(at, av) == [af |-> 1, at |-> at, av |-> av, avl |-> << >>]
WL(at, avl) == [af |-> 0, at |-> at, av |-> 0, avl |-> avl]
WT(tt, tid, attrs) == [r1 |-> 0, tt |-> tt, r2 |-> 0, tid |-> tid, attrs |-> attrs]
AllowedW(k, t) ==
  LET own == IF k \in {"encr", "encrk"}
               THEN IF t.tid = 12 THEN { AesName(t.attrs[i].av) : i \in { j \in 1..Len(t.attrs) : t.attrs[j].af = 1 /\ t.attrs[j].at = 14 /\ t.attrs[j].av \in {128, 192, 256} } } ELSE {}
               ELSE { FromTransform(k, [tid |-> t.tid, attr |-> "none", at |-> 0, av |-> 0]) } \ {"unsupported"} IN
  SetToSeqAny(own \cup {"unsupported"})
AttrLists == { << WA(14, 128), WA(9, 256) >>, << WA(14, 999), WA(9, 256) >>, << WA(9, 256), WA(14, 128) >>, << WA(14, 128), WA(14, 256) >>,
               << WA(14, 192), WL(14, << 1, 0 >>) >>, << WL(9, << 0, 128 >>), WA(14, 256) >>, << WA(14, 256), WA(142, 128), WA(15, 192) >>,
               << WA(13, 128), WA(15, 192) >>, << WL(14, << 0, 128 >>), WL(14, << 1, 0 >>) >>, << WA(14, 64), WA(14, 128) >>, << WA(14, 256), WA(14, 256) >>,
               << WA(14, 0), WA(0, 192) >>, << WA(1, 256), WA(2, 192), WA(14, 128) >> }
\* (1) one transform with two or three attributes, through every decode function of its type
MultiAttrVector(k) ==
  LET tt == TypeOfKind(k)
      tids == IF tt = 1 THEN << 12, 12, 3 >> ELSE << 2, 12, 9 >>
      ls == SetToSeqAny(AttrLists)
      one(t) == [k |-> "SA", crit |-> 0, rsv |-> 0, props |-> << [r |-> 0, num |-> 1, proto |-> 1, spi |-> << >>, tr |-> << t >>] >>] IN
  Vector("transforms_multiattr", [i \in 1..(3 * Len(ls)) |->
    LET t == WT(tt, tids[((i - 1) % 3) + 1], ls[((i - 1) \div 3) + 1]) IN
    Step("transform_to_alg", "C11", FALSE, [kind |-> k, sawire |-> EncBodyW(one(t)), prop |-> 1, tt |-> tt, idx |-> 1], [panic |-> FALSE, alg |-> [oneof |-> AllowedW(k, t)]])])
\* (2) several transforms / proposals in one SA payload: each transform is mapped as if it had arrived alone
NeighbourLists ==
  << << WT(1, 12, << WA(14, 256) >>), WT(1, 12, << WL(14, << 0, 128 >>) >>), WT(1, 12, << >>), WT(1, 12, << WA(14, 128) >>), WT(1, 12, << WL(14, << 1, 0 >>) >>) >>,
     << WT(3, 2, << WA(14, 192) >>), WT(1, 12, << WL(14, << 0, 192 >>) >>), WT(1, 12, << WA(15, 256) >>), WT(2, 5, << WA(14, 128) >>), WT(1, 12, << >>) >>,
     << WT(1, 12, << WA(14, 128) >>), WT(1, 3, << >>), WT(1, 12, << WA(14, 192) >>), WT(1, 13, << WA(14, 256) >>), WT(1, 12, << WA(14, 256) >>), WT(1, 12, << WA(14, 257) >>) >>,
     << WT(3, 2, << >>), WT(3, 9, << >>), WT(3, 12, << >>), WT(3, 1, << >>), WT(2, 2, << >>), WT(2, 9, << >>), WT(2, 5, << >>), WT(4, 14, << >>), WT(4, 5, << >>), WT(4, 2, << >>), WT(5, 1, << >>), WT(5, 2, << >>), WT(5, 0, << >>) >> >>
NthOfType(trs, q) == Cardinality({ j \in 1..q : trs[j].tt = trs[q].tt })
KindsOfType(tt) == CASE tt = 1 -> << "encr", "encrk" >> [] tt = 2 -> << "prf" >> [] tt = 3 -> << "integ", "integk" >> [] tt = 4 -> << "dh" >> [] OTHER -> << "esn" >>
NeighbourVector(n, two) ==
  LET trs == NeighbourLists[n]
      \* the same transforms in one proposal, or split over two proposals of the same SA payload (the second holds the tail)
      h == Len(trs) \div 2
      props == IF two THEN << [r |-> 0, num |-> 1, proto |-> 1, spi |-> << >>, tr |-> SubSeq(trs, 1, h)], [r |-> 0, num |-> 2, proto |-> 1, spi |-> << >>, tr |-> SubSeq(trs, h + 1, Len(trs))] >>
               ELSE << [r |-> 0, num |-> 1, proto |-> 1, spi |-> << >>, tr |-> trs] >>
      w == EncBodyW([k |-> "SA", crit |-> 0, rsv |-> 0, props |-> props])
      st(q, k) == LET pi == IF two /\ q > h THEN 2 ELSE 1
                      own == props[pi].tr
                      qq == IF two /\ q > h THEN q - h ELSE q IN
                  Step("transform_to_alg", "C11", FALSE, [kind |-> k, sawire |-> w, prop |-> pi, tt |-> trs[q].tt, idx |-> NthOfType(own, qq)],
                       [panic |-> FALSE, alg |-> [oneof |-> AllowedW(k, trs[q])]]) IN
  Vector("transforms_neighbours", Flat([q \in 1..Len(trs) |-> [z \in 1..Len(KindsOfType(trs[q].tt)) |-> st(q, KindsOfType(trs[q].tt)[z])]]))

\* single-choice proposals
ChildProp(e, a, d, x) == [num |-> 1, proto |-> 3, spi |-> << 1, 2, 3, 4 >>,
  tr |-> << ToTransform("encrk", e) >> \o (IF a = "none" THEN << >> ELSE << ToTransform("integk", a) >>)
         \o (IF d = "none" THEN << >> ELSE << ToTransform("dh", d) >>) \o << ToTransform("esn", x) >>]
RECURSIVE ByType(_, _)
ByType(trs, tt) == SelectSeq(trs, LAMBDA t : t.tt = tt)
Sorted(trs) == ByType(trs, 1) \o ByType(trs, 2) \o ByType(trs, 3) \o ByType(trs, 4) \o ByType(trs, 5)
AltBits(b) == IF b = 128 THEN 256 ELSE IF b = 192 THEN 128 ELSE 192
\* a refused proposal: refused again when offered again, and left as it was (building an SA reads the proposal)
Refused == [panic |-> FALSE, err |-> TRUE, againerr |-> TRUE, propsame |-> TRUE]
\* the key length in a variable-length (TLV) attribute -- another attribute format, hence another attribute: unsupported
TlvKeyLen(t, bits) == [t EXCEPT !.attr = "tlv", !.at = 14, !.av = 0, !.avl = << bits \div 256, bits % 256 >>]
IkePropVector(su, grp, mode) ==
  LET p == IkeProp(su, grp) wire == (mode = "wire") scratch == (mode = "scratch") IN
  Vector("ikeprop", << Step("proposal_roundtrip", "C11", FALSE, [kind |-> "ike", prop |-> p, wire |-> wire, scratch |-> scratch, alt |-> AltBits(su.encr)],
      [panic |-> FALSE, err |-> FALSE, encr |-> AesName(su.encr), integ |-> su.integ, prf |-> su.prf, dh |-> "modp-" \o ToString(grp),
       back |-> Sorted(p.tr), backproto |-> 1, appendsafe |-> TRUE, propsame |-> TRUE,
       back2 |-> Sorted([j \in 1..Len(p.tr) |-> IF p.tr[j].tt = 1 THEN [p.tr[j] EXCEPT !.av = AltBits(su.encr)] ELSE p.tr[j]])]) >>
    \o  \* the same proposal with one element replaced by an unsupported one, or removed: building the SA must fail
    [i \in 1..4 |-> Step("proposal_roundtrip", "C11", FALSE,
        [kind |-> "ike", prop |-> [p EXCEPT !.tr = [j \in 1..4 |-> IF j = i THEN [p.tr[j] EXCEPT !.tid = IF i = 1 THEN 13 ELSE 9] ELSE p.tr[j]]], wire |-> wire, scratch |-> scratch],
        Refused)]
    \o [i \in 1..4 |-> Step("proposal_roundtrip", "C11", FALSE,
        [kind |-> "ike", prop |-> [p EXCEPT !.tr = SelectSeq(p.tr, LAMBDA t : t.tt # i)], wire |-> wire, scratch |-> scratch], Refused)]
    \o << Step("proposal_roundtrip", "C11", FALSE,
        [kind |-> "ike", prop |-> [p EXCEPT !.tr = [j \in 1..4 |-> IF j = 1 THEN [p.tr[1] EXCEPT !.av = 64] ELSE p.tr[j]]], wire |-> wire, scratch |-> scratch], Refused),
          Step("proposal_roundtrip", "C11", FALSE,
        [kind |-> "ike", prop |-> [p EXCEPT !.tr = [j \in 1..4 |-> IF j = 1 THEN [p.tr[1] EXCEPT !.attr = "none", !.at = 0, !.av = 0] ELSE p.tr[j]]], wire |-> wire, scratch |-> scratch], Refused) >>
    \o [i \in 1..3 |-> Step("proposal_roundtrip", "C11", FALSE,
        [kind |-> "ike", prop |-> [p EXCEPT !.tr = [j \in 1..4 |-> IF j = 1 THEN TlvKeyLen(p.tr[1], << 128, 192, 256 >>[i]) ELSE p.tr[j]]], wire |-> wire, scratch |-> scratch], Refused)])
ChildPropVector(e, a, d, x, mode) ==
  LET p == ChildProp(e, a, d, x) wire == (mode = "wire") scratch == (mode = "scratch") IN
  Vector("childprop", << Step("proposal_roundtrip", "C11", FALSE, [kind |-> "child", prop |-> p, wire |-> wire, scratch |-> scratch],
      IF a = "none" THEN [panic |-> FALSE, propsame |-> TRUE]      \* absent integrity: the property does not say whether such a proposal must be accepted
      ELSE [panic |-> FALSE, err |-> FALSE, encr |-> e, integ |-> a, dh |-> d, esn |-> x, back |-> Sorted(p.tr), backproto |-> 3, appendsafe |-> TRUE, propsame |-> TRUE]),
    Step("proposal_roundtrip", "C11", FALSE, [kind |-> "child", prop |-> [p EXCEPT !.tr = [j \in 1..Len(p.tr) |-> IF j = 1 THEN [p.tr[1] EXCEPT !.av = 129] ELSE p.tr[j]]], wire |-> wire, scratch |-> scratch],
      Refused),
    Step("proposal_roundtrip", "C11", FALSE, [kind |-> "child", prop |-> [p EXCEPT !.tr = [j \in 1..Len(p.tr) |-> IF p.tr[j].tt = 5 THEN [p.tr[j] EXCEPT !.tid = 2] ELSE p.tr[j]]], wire |-> wire, scratch |-> scratch],
      Refused),
    Step("proposal_roundtrip", "C11", FALSE, [kind |-> "child", prop |-> [p EXCEPT !.tr = [j \in 1..Len(p.tr) |-> IF j = 1 THEN TlvKeyLen(p.tr[1], 256) ELSE p.tr[j]]], wire |-> wire, scratch |-> scratch],
      Refused),
    \* every element in turn replaced by one the library does not implement (AES-CTR, AUTH_AES_XCBC_96 / id 9, MODP group 5, ESN id 7)
    Step("proposal_roundtrip", "C11", FALSE, [kind |-> "child", prop |-> [p EXCEPT !.tr = [j \in 1..Len(p.tr) |-> IF p.tr[j].tt = 1 THEN [p.tr[j] EXCEPT !.tid = 13] ELSE p.tr[j]]], wire |-> wire, scratch |-> scratch], Refused),
    Step("proposal_roundtrip", "C11", FALSE, [kind |-> "child", prop |-> [p EXCEPT !.tr = [j \in 1..Len(p.tr) |-> IF p.tr[j].tt = 3 THEN [p.tr[j] EXCEPT !.tid = 5] ELSE p.tr[j]]], wire |-> wire, scratch |-> scratch],
         IF a = "none" THEN [panic |-> FALSE, propsame |-> TRUE] ELSE Refused),
    Step("proposal_roundtrip", "C11", FALSE, [kind |-> "child", prop |-> [p EXCEPT !.tr = [j \in 1..Len(p.tr) |-> IF p.tr[j].tt = 3 THEN [p.tr[j] EXCEPT !.tid = 9] ELSE p.tr[j]]], wire |-> wire, scratch |-> scratch],
         IF a = "none" THEN [panic |-> FALSE, propsame |-> TRUE] ELSE Refused),
    Step("proposal_roundtrip", "C11", FALSE, [kind |-> "child", prop |-> [p EXCEPT !.tr = [j \in 1..Len(p.tr) |-> IF p.tr[j].tt = 4 THEN [p.tr[j] EXCEPT !.tid = 5] ELSE p.tr[j]]], wire |-> wire, scratch |-> scratch],
         IF d = "none" THEN [panic |-> FALSE, propsame |-> TRUE] ELSE Refused),
    \* every ESN identifier but 0 and 1 is unknown
    Step("proposal_roundtrip", "C11", FALSE, [kind |-> "child", prop |-> [p EXCEPT !.tr = [j \in 1..Len(p.tr) |-> IF p.tr[j].tt = 5 THEN [p.tr[j] EXCEPT !.tid = 65535] ELSE p.tr[j]]], wire |-> wire, scratch |-> scratch],
      Refused) >>)

PropVectors ==
  { IkePropVector(s, grp, w) : s \in Suites27, grp \in {2, 14}, w \in {"wire", "direct", "scratch"} }
  \cup { ChildPropVector(e, a, d, x, w) : e \in Advertised("encrk"), a \in {"none", "md5", "sha1", "sha256"}, d \in {"none", "modp-2", "modp-14"},
                                        x \in {"esn-off", "esn-on"}, w \in {"wire", "direct", "scratch"} }

Init == stage = 0 /\ kind = "" /\ id = 0
Next ==
  \/ stage = 0 /\ stage' = 1 /\ kind' \in Kinds \cup {"props"} /\ id' = 0
  \/ stage = 1 /\ kind # "props" /\ stage' = 2 /\ kind' = kind /\ id' \in Ids \cup {0 - 1, 0 - 2} \cup (IF kind = "encr" THEN (0 - 10)..(0 - 3) ELSE {})
  \/ stage = 1 /\ kind = "props" /\ stage' = 2 /\ kind' = kind /\ id' \in 1..Cardinality(PropVectors)
  \/ stage = 2 /\ UNCHANGED << stage, kind, id >>
PropSeq == SetToSeqAny(PropVectors)
Emit == stage = 2 => PrintT(ToJson(IF kind = "props" THEN PropSeq[id] ELSE IF id = 0 - 1 THEN AdvVector(kind) ELSE IF id = 0 - 2 THEN MultiAttrVector(kind)
                                 ELSE IF id < 0 - 2 THEN NeighbourVector(((0 - id - 3) % 4) + 1, (0 - id - 3) >= 4) ELSE IdVector(kind, id)))
Sound == RoundTripHolds
=============================================================================
