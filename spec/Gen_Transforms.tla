---------------------------- MODULE Gen_Transforms ----------------------------
(* C11 generation: every advertised algorithm to a transform, over the wire and back; the transform space (identifiers x attribute classes) *)
(* through each of the seven decode functions, directly and after a wire round trip; single-choice IKE and Child proposals.                 *)
EXTENDS Transforms, KeyLife, Pools
VARIABLES stage, kind, id

IdsQuick == (0..40) \cup {255, 256, 1023, 1024, 4108, 32767, 32768, 65535, 13, 8, 76, 140, 268, 524, 3, 6, 10, 18, 34, 66, 130, 258, 16398, 4, 7, 21}
Ids == IF Thorough THEN 0..65535 ELSE IdsQuick

AttrClasses(k, tid) ==
  LET tt == TypeOfKind(k)
      full == tid \in {0, 1, 2, 5, 12, 14, 13, 255}
      kl == {0, 1, 64, 127, 128, 129, 191, 192, 193, 255, 256, 257, 512, 32768, 65535} IN
  { T(tt, tid, "none", 0, 0, << >>), T(tt, tid, "tv", 14, 128, << >>), T(tt, tid, "tv", 14, 256, << >>) }
  \cup (IF ~Thorough \/ full
          THEN { T(tt, tid, "tv", 14, v, << >>) : v \in kl }
               \cup { T(tt, tid, "tv", at, 128, << >>) : at \in {0, 1, 13, 15, 142, 270, 1038, 16398, 32766, 32767} \cup { 14 + 128 * j : j \in {1, 2, 3, 100, 255} } }
               \cup { T(tt, tid, "tlv", 14, 0, v) : v \in { << 0, 128 >>, << 128 >>, << 1, 0 >>, << 0, 0, 0, 128 >> } }
               \* TLV values whose LENGTH is a key size (the length half-word must not be taken for the value)
               \cup { T(tt, tid, "tlv", 14, 0, D(n, 14)) : n \in {16, 24, 32, 128, 192, 256} }
          ELSE {})

IdVector(k, tid) ==
  LET cs == SetToSeqAny(AttrClasses(k, tid)) IN
  Vector("transforms", [i \in 1..(2 * Len(cs)) |-> FromStep(k, cs[((i - 1) \div 2) + 1], i % 2 = 0)])

AdvVector(k) ==
  LET ns == SetToSeqAny(Advertised(k)) IN
  Vector("advertised", [i \in 1..Len(ns) |-> ToStep(k, ns[i])]
                       \o [i \in 1..Len(ns) |-> FromStep(k, ToTransform(k, ns[i]), TRUE)]
                       \o [i \in 1..Len(ns) |-> FromStep(k, ToTransform(k, ns[i]), FALSE)])

\* single-choice proposals
ChildProp(e, a, d, x) == [num |-> 1, proto |-> 3, spi |-> << 1, 2, 3, 4 >>,
  tr |-> << ToTransform("encrk", e) >> \o (IF a = "none" THEN << >> ELSE << ToTransform("integk", a) >>)
         \o (IF d = "none" THEN << >> ELSE << ToTransform("dh", d) >>) \o << ToTransform("esn", x) >>]
RECURSIVE ByType(_, _)
ByType(trs, tt) == SelectSeq(trs, LAMBDA t : t.tt = tt)
Sorted(trs) == ByType(trs, 1) \o ByType(trs, 2) \o ByType(trs, 3) \o ByType(trs, 4) \o ByType(trs, 5)
AltBits(b) == IF b = 128 THEN 256 ELSE IF b = 192 THEN 128 ELSE 192
\* a refused proposal: refused again when offered again, and left as it was (building an SA reads the proposal)
Refused == [panic |-> FALSE, err |-> TRUE, againerr |-> TRUE, propsame |-> TRUE]
\* the key length in a variable-length (TLV) attribute -- another attribute format, hence another attribute: unsupported
TlvKeyLen(t, bits) == [t EXCEPT !.attr = "tlv", !.at = 14, !.av = 0, !.avl = << bits \div 256, bits % 256 >>]
IkePropVector(su, grp, wire) ==
  LET p == IkeProp(su, grp) IN
  Vector("ikeprop", << Step("proposal_roundtrip", "C11", FALSE, [kind |-> "ike", prop |-> p, wire |-> wire, alt |-> AltBits(su.encr)],
      [panic |-> FALSE, err |-> FALSE, encr |-> AesName(su.encr), integ |-> su.integ, prf |-> su.prf, dh |-> "modp-" \o ToString(grp),
       back |-> Sorted(p.tr), backproto |-> 1, appendsafe |-> TRUE, propsame |-> TRUE,
       back2 |-> Sorted([j \in 1..Len(p.tr) |-> IF p.tr[j].tt = 1 THEN [p.tr[j] EXCEPT !.av = AltBits(su.encr)] ELSE p.tr[j]])]) >>
    \o  \* the same proposal with one element replaced by an unsupported one, or removed: building the SA must fail
    [i \in 1..4 |-> Step("proposal_roundtrip", "C11", FALSE,
        [kind |-> "ike", prop |-> [p EXCEPT !.tr = [j \in 1..4 |-> IF j = i THEN [p.tr[j] EXCEPT !.tid = IF i = 1 THEN 13 ELSE 9] ELSE p.tr[j]]], wire |-> wire],
        Refused)]
    \o [i \in 1..4 |-> Step("proposal_roundtrip", "C11", FALSE,
        [kind |-> "ike", prop |-> [p EXCEPT !.tr = SelectSeq(p.tr, LAMBDA t : t.tt # i)], wire |-> wire], Refused)]
    \o << Step("proposal_roundtrip", "C11", FALSE,
        [kind |-> "ike", prop |-> [p EXCEPT !.tr = [j \in 1..4 |-> IF j = 1 THEN [p.tr[1] EXCEPT !.av = 64] ELSE p.tr[j]]], wire |-> wire], Refused),
          Step("proposal_roundtrip", "C11", FALSE,
        [kind |-> "ike", prop |-> [p EXCEPT !.tr = [j \in 1..4 |-> IF j = 1 THEN [p.tr[1] EXCEPT !.attr = "none", !.at = 0, !.av = 0] ELSE p.tr[j]]], wire |-> wire], Refused) >>
    \o [i \in 1..3 |-> Step("proposal_roundtrip", "C11", FALSE,
        [kind |-> "ike", prop |-> [p EXCEPT !.tr = [j \in 1..4 |-> IF j = 1 THEN TlvKeyLen(p.tr[1], << 128, 192, 256 >>[i]) ELSE p.tr[j]]], wire |-> wire], Refused)])
ChildPropVector(e, a, d, x, wire) ==
  LET p == ChildProp(e, a, d, x) IN
  Vector("childprop", << Step("proposal_roundtrip", "C11", FALSE, [kind |-> "child", prop |-> p, wire |-> wire],
      IF a = "none" THEN [panic |-> FALSE, propsame |-> TRUE]      \* absent integrity: the property does not say whether such a proposal must be accepted
      ELSE [panic |-> FALSE, err |-> FALSE, encr |-> e, integ |-> a, dh |-> d, esn |-> x, back |-> Sorted(p.tr), backproto |-> 3, appendsafe |-> TRUE, propsame |-> TRUE]),
    Step("proposal_roundtrip", "C11", FALSE, [kind |-> "child", prop |-> [p EXCEPT !.tr = [j \in 1..Len(p.tr) |-> IF j = 1 THEN [p.tr[1] EXCEPT !.av = 129] ELSE p.tr[j]]], wire |-> wire],
      Refused),
    Step("proposal_roundtrip", "C11", FALSE, [kind |-> "child", prop |-> [p EXCEPT !.tr = [j \in 1..Len(p.tr) |-> IF p.tr[j].tt = 5 THEN [p.tr[j] EXCEPT !.tid = 2] ELSE p.tr[j]]], wire |-> wire],
      Refused),
    Step("proposal_roundtrip", "C11", FALSE, [kind |-> "child", prop |-> [p EXCEPT !.tr = [j \in 1..Len(p.tr) |-> IF j = 1 THEN TlvKeyLen(p.tr[1], 256) ELSE p.tr[j]]], wire |-> wire],
      Refused),
    \* every ESN identifier but 0 and 1 is unknown
    Step("proposal_roundtrip", "C11", FALSE, [kind |-> "child", prop |-> [p EXCEPT !.tr = [j \in 1..Len(p.tr) |-> IF p.tr[j].tt = 5 THEN [p.tr[j] EXCEPT !.tid = 65535] ELSE p.tr[j]]], wire |-> wire],
      Refused) >>)

PropVectors ==
  { IkePropVector(s, grp, w) : s \in Suites27, grp \in {2, 14}, w \in BOOLEAN }
  \cup { ChildPropVector(e, a, d, x, w) : e \in Advertised("encrk"), a \in {"none", "md5", "sha1", "sha256"}, d \in {"none", "modp-2", "modp-14"},
                                        x \in {"esn-off", "esn-on"}, w \in BOOLEAN }

Init == stage = 0 /\ kind = "" /\ id = 0
Next ==
  \/ stage = 0 /\ stage' = 1 /\ kind' \in Kinds \cup {"props"} /\ id' = 0
  \/ stage = 1 /\ kind # "props" /\ stage' = 2 /\ kind' = kind /\ id' \in Ids \cup {0 - 1}
  \/ stage = 1 /\ kind = "props" /\ stage' = 2 /\ kind' = kind /\ id' \in 1..Cardinality(PropVectors)
  \/ stage = 2 /\ UNCHANGED << stage, kind, id >>
PropSeq == SetToSeqAny(PropVectors)
Emit == stage = 2 => PrintT(ToJson(IF kind = "props" THEN PropSeq[id] ELSE IF id = 0 - 1 THEN AdvVector(kind) ELSE IdVector(kind, id)))
Sound == RoundTripHolds
=============================================================================
