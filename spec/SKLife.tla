-------------------------------- MODULE SKLife --------------------------------
(***************************************************************************)
(* Expectations for the protected entry points ike.EncodeEncrypt and       *)
(* ike.DecodeDecrypt, and vector builders shared by the generation         *)
(* configurations of C01 C02 C06 C17.                                      *)
(***************************************************************************)
EXTENDS CodecLife, SK, KeySchedule

\* key material of a keyset as terms (contents differ per keyset and per key)
KeysOf(su, ks) ==
  LET f(n, i) == FillT("seeded", n, 100 * ks + i) IN
  [sk_d |-> f(PrfLen(su.prf), 1), sk_ai |-> f(IntegKeyLen(su.integ), 2), sk_ar |-> f(IntegKeyLen(su.integ), 3),
   sk_ei |-> f(EncrKeyLen(su.encr), 4), sk_er |-> f(EncrKeyLen(su.encr), 5), sk_pi |-> f(PrfLen(su.prf), 6), sk_pr |-> f(PrfLen(su.prf), 7)]
KeysRandom(su, ks, salt) ==
  LET f(n, i) == FillT("seeded", n, 100 * ks + i + 13 * salt) IN
  [sk_d |-> f(PrfLen(su.prf), 1), sk_ai |-> f(IntegKeyLen(su.integ), 2), sk_ar |-> f(IntegKeyLen(su.integ), 3),
   sk_ei |-> f(EncrKeyLen(su.encr), 4), sk_er |-> f(EncrKeyLen(su.encr), 5), sk_pi |-> f(PrfLen(su.prf), 6), sk_pr |-> f(PrfLen(su.prf), 7)]

SaNew(name, su, keys) == Step("sa_new", "", FALSE, [name |-> name, suite |-> su, keys |-> keys], [panic |-> FALSE, err |-> FALSE])

\* EncodeEncrypt with keys: no octets can be predicted (random IV and padding); the layout is judged in the T direction
ProtectStep(prop, sa, role, m, rnd) ==
  Step("protect", prop, FALSE, [sa |-> sa, role |-> role, msg |-> m, rand |-> rnd],
       IF sa = "none" THEN [panic |-> FALSE, err |-> FALSE, wire |-> EncMsg(Norm(m))]
                      ELSE [panic |-> FALSE, err |-> FALSE, hdrsame |-> TRUE, orig |-> NormChain(m.payloads), held |-> NormChain(m.payloads), protheld |-> TRUE])
AcceptExp(m)  == [panic |-> FALSE, capdiff |-> FALSE, err |-> FALSE, msg |-> Norm(m), decrypts |-> 1]
RejectExp     == [panic |-> FALSE, capdiff |-> FALSE, err |-> TRUE, decrypts |-> 0]
PlainExp      == [panic |-> FALSE, capdiff |-> FALSE, decrypts |-> 0, macs |-> 0]
UnprotectStep(prop, sa, role, wire, mode, exp) ==
  Step("unprotect", prop, FALSE, [sa |-> sa, role |-> role, wire |-> wire, hdrmode |-> mode, caps |-> FALSE], exp)
OptStep(st) == st @@ [opt |-> TRUE]
UnprotectCaps(prop, sa, role, wire, mode, exp) ==
  Step("unprotect", prop, FALSE, [sa |-> sa, role |-> role, wire |-> wire, hdrmode |-> mode, caps |-> TRUE], exp)
=============================================================================
