---------------------------- MODULE Gen_Adversary ----------------------------
(* C02: the enumeration the property asks for.  For suite x role x base message the sender really protects the    *)
(* message; then EVERY single-bit flip, every proper prefix, extensions, length-field overwrites (with and without *)
(* matching truncation), splices of two messages under the same keys, unrelated keys, and every other value of the *)
(* header's first-payload octet are offered to the receiver.  Expected: error and no Decrypt call -- except when   *)
(* octet 17 no longer announces an Encrypted payload: then no key may be applied (PlainExp).                       *)
EXTENDS SKLife, Pools
VARIABLES stage, su, role, mi, part

SuiteSeq == << Suite(128, "md5", "sha1"), Suite(192, "md5", "sha1"), Suite(256, "md5", "sha1"),
               Suite(128, "sha1", "sha1"), Suite(192, "sha1", "sha1"), Suite(256, "sha1", "sha1"),
               Suite(128, "sha256", "sha1"), Suite(192, "sha256", "sha1"), Suite(256, "sha256", "sha1") >>
BaseChains == << << Rep("N") >>, << Rep("IDi"), Rep("AUTH") >>, << >> , << Rep("SA"), Rep("KE"), Rep("NONCE") >> >>
M(i) == Msg(((i - 1) % 5) + 1, BaseChains[i])
M2(i) == Msg((i % 5) + 1, << Rep("V"), Rep("D") >>)      \* the second message for splices (other header, other payloads)

N(s, i) == LibProtectedLen(M(i), SuiteSeq[s])          \* length of the protected datagram if padding is minimal
IL(s) == IcvLen(SuiteSeq[s].integ)
W(n) == RefT(4, "wire", n)
Mode(i) == IF i % 2 = 0 THEN "nil" ELSE "pre"
Setup(s, r, i) == << SaNew("S", SuiteSeq[s], KeysOf(SuiteSeq[s], 1)), SaNew("R", SuiteSeq[s], KeysOf(SuiteSeq[s], 1)), SaNew("X", SuiteSeq[s], KeysOf(SuiteSeq[s], 2)),
                     ProtectStep("C01", "S", r, M(i), "system") >>
ExpAt(o) == IF o = 16 THEN PlainExp ELSE RejectExp
Try(sa, r, w, md, exp) == UnprotectCaps("C02", sa, ~r, w, md, exp)

Chunks(n) == 0..((n - 1) \div 16)
Parts(s, i) == { << "flip", c >> : c \in Chunks(N(s, i) - IL(s)) } \cup { << "prefix", c >> : c \in Chunks(N(s, i)) }
               \cup { << "retype", c >> : c \in 0..7 } \cup { << "flipicv", 0 >>, << "ext", 0 >>, << "site", 0 >>, << "splice", 0 >>, << "crosskey", 0 >>, << "insert", 0 >> }

Steps(s, r, i, p) ==
  LET n == N(s, i) il == IL(s) w == W(n) IN
  CASE p[1] = "flip" ->
         LET lo == 16 * p[2] hi == Min(n - il, lo + 16) - 1 IN
         [j \in 1..(8 * (hi - lo + 1)) |->
            LET o == lo + (j - 1) \div 8 k == (j - 1) % 8 IN Try("R", r, Flip(w, o, k), Mode(o + k), ExpAt(o))]
    [] p[1] = "flipicv" ->
         [j \in 1..(8 * il) |-> Try("R", r, Flip(w, 0 - 1 - (j - 1) \div 8, (j - 1) % 8), Mode(j), RejectExp)]
    [] p[1] = "prefix" ->
         LET lo == 16 * p[2] + 1 hi == Min(n, lo + 15) IN
         [j \in 1..(hi - lo + 1) |-> Try("R", r, DropEnd(w, lo + j - 1), Mode(j), RejectExp)]
    [] p[1] = "retype" ->
         LET ts == { t \in (32 * p[2])..(32 * p[2] + 31) : t # 46 }
             sq == SeqOfSet(ts) IN
         [j \in 1..Len(sq) |-> Try("R", r, OverwriteT(w, 16, << sq[j] >>), Mode(j), PlainExp)]
    [] p[1] = "ext" ->
         << Try("R", r, Cat(<< w, Lit(<< 0 >>) >>), "nil", RejectExp),
            Try("R", r, Cat(<< w, Lit(<< 0, 0, 0 >>) >>), "pre", RejectExp),
            Try("R", r, Cat(<< w, Lit(<< 0, 0, 0, 4 >>) >>), "nil", RejectExp),
            Try("R", r, Cat(<< w, Lit(<< 0, 0, 0, 8, 1, 2, 3, 4 >>) >>), "pre", RejectExp),
            Try("R", r, Cat(<< w, FillT("ff", 16, 0) >>), "nil", RejectExp),
            Try("R", r, Cat(<< w, Lit(<< 41, 0, 0, 12, 0, 0, 64, 1, 9, 9, 9, 9 >>) >>), "nil", RejectExp),
            Try("R", r, Cat(<< w, w >>), "nil", RejectExp) >>
    [] p[1] = "site" ->      \* length fields: header length (24..27), Encrypted payload length (30..31)
         LET body == n - 32
             vals == { v \in {0, 3, 4, 5, 4 + il - 1, 4 + il, 4 + il + 1, 19, 20, 21, 35, 36, 4 + body - 16, 4 + body - 1, 4 + body + 1, 4 + body + 16, 65535} : v >= 0 }
             sq == SeqOfSet(vals) IN
         [j \in 1..Len(sq) |-> Try("R", r, OverwriteT(w, 30, U16(sq[j])), Mode(j), RejectExp)]
         \o [j \in 1..Len(sq) |->      \* with matching truncation: the datagram ends where the Encrypted payload says it ends
               IF sq[j] >= 4 /\ sq[j] < 4 + body
                 THEN Try("R", r, DropEnd(OverwriteT(w, 30, U16(sq[j])), 4 + body - sq[j]), Mode(j + 1), RejectExp)
                 ELSE Try("R", r, OverwriteT(w, 24, U32(sq[j])), Mode(j + 1), RejectExp)]
    [] p[1] = "splice" ->
         LET w2 == RefT(5, "wire", LibProtectedLen(M2(i), SuiteSeq[s])) IN
         << ProtectStep("C01", "S", r, M2(i), "system"),
            Try("R", r, w2, "nil", AcceptExp(M2(i))),                                                   \* control: the second message is genuine
            Try("R", r, Cat(<< Slice(w, 0, 28), FromT(w2, 28) >>), "nil", RejectExp),                    \* header of 1, body of 2
            Try("R", r, Cat(<< Slice(w2, 0, 28), FromT(w, 28) >>), "pre", RejectExp),
            Try("R", r, Cat(<< Slice(w, 0, 48), FromT(w2, 48) >>), "nil", RejectExp),                    \* header + IV of 1, ciphertext + checksum of 2
            Try("R", r, Cat(<< DropEnd(w, il), LastN(w2, il) >>), "pre", RejectExp),                     \* checksum of 2 on 1
            Try("R", r, Cat(<< Slice(w, 0, 32), FromT(w2, 32) >>), "nil", RejectExp) >>
    [] p[1] = "insert" ->     \* a multi-octet edit after which the datagram still presents an Encrypted payload: the header names an
                              \* unsupported type and a generic payload header of that type (next = 46) is put in front of SK;
                              \* with and without the header length adjusted.  Nothing was re-authenticated: rejected, no key applied to the ciphertext
         LET ts == << 49, 127, 200, 0, 255 >>
             ins(t, fix, body) == Cat(<< IF fix THEN OverwriteT(OverwriteT(Slice(w, 0, 28), 16, << t >>), 24, U32(n + 4 + Len(body)))
                                                ELSE OverwriteT(Slice(w, 0, 28), 16, << t >>),
                                         Lit(<< 46, 0 >> \o U16(4 + Len(body)) \o body), FromT(w, 28) >>) IN
         [j \in 1..Len(ts) |-> Try("R", r, ins(ts[j], TRUE, << >>), Mode(j), RejectExp)]
         \o [j \in 1..Len(ts) |-> Try("R", r, ins(ts[j], FALSE, << >>), Mode(j + 1), RejectExp)]
         \o [j \in 1..Len(ts) |-> Try("R", r, ins(ts[j], TRUE, << 1, 2, 3, 4, 5 >>), Mode(j), RejectExp)]
    [] p[1] = "crosskey" ->
         << Try("X", r, w, "nil", RejectExp), Try("X", r, w, "pre", RejectExp),
            Try("X", ~r, w, "nil", RejectExp),
            Try("R", r, w, "nil", AcceptExp(M(i))) >>                                                    \* control: genuine message accepted

Init == stage = 0 /\ su = 0 /\ role = TRUE /\ mi = 0 /\ part = << >>
Next ==
  \/ stage = 0 /\ stage' = 1 /\ su' \in 1..9 /\ role' \in BOOLEAN /\ UNCHANGED << mi, part >>
  \/ stage = 1 /\ stage' = 2 /\ UNCHANGED << su, role, part >>
     /\ mi' \in { i \in 1..Len(BaseChains) : Thorough \/ i = ((su + (IF role THEN 0 ELSE 1)) % Len(BaseChains)) + 1 }
  \/ stage = 2 /\ stage' = 3 /\ part' \in Parts(su, mi) /\ UNCHANGED << su, role, mi >>
  \/ stage = 3 /\ UNCHANGED << stage, su, role, mi, part >>
Emit == stage = 3 => PrintT(ToJson(Vector("adversary", Setup(su, role, mi) \o Steps(su, role, mi, part))))
Sound == stage = 3 => Encodable(M(mi)) /\ Encodable(M2(mi))
=============================================================================
