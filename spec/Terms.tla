-------------------------------- MODULE Terms --------------------------------
(***************************************************************************)
(* Cryptography as terms (DESIGN.md 3.3).  AES, the HMAC compression       *)
(* functions and modular exponentiation are uninterpreted function symbols *)
(* of the specification; a term is a record the harness evaluates with     *)
(* Go's standard library.  Everything the properties talk about -- which   *)
(* key, which octets, which order, which lengths, which slices, which      *)
(* counter octet, which direction -- is decided here in TLA+.  LenOf is    *)
(* computable for every term, so the specification fills in every length   *)
(* field itself even around opaque ciphertext.                             *)
(***************************************************************************)
EXTENDS Octets

Lit(v)              == [t |-> "lit", v |-> v]
FillT(pat, n, s)    == [t |-> "fill", pat |-> pat, n |-> n, s |-> s]
Cat(a)              == [t |-> "cat", a |-> a]
Slice(x, off, len)  == [t |-> "slice", x |-> x, off |-> off, len |-> len]
Hmac(h, key, data)  == [t |-> "hmac", h |-> h, key |-> key, data |-> data]
Cbc(key, iv, x)     == [t |-> "cbc", key |-> key, iv |-> iv, x |-> x]        \* raw AES-CBC encryption, no padding
CbcDec(key, iv, x)  == [t |-> "cbcdec", key |-> key, iv |-> iv, x |-> x]
ModExp(b, e, m)     == [t |-> "modexp", b |-> b, e |-> e, m |-> m]
LPad(x, n)          == [t |-> "lpad", x |-> x, n |-> n]
Var(n, len)         == [t |-> "var", n |-> n, len |-> len]                     \* a named term defined in the vector's defs
RefT(step, key, len) == [t |-> "ref", step |-> step, key |-> key, len |-> len] \* the observation `key` of an earlier step
Flip(x, i, k)       == [t |-> "flip", x |-> x, i |-> i, k |-> k]               \* bit k of 0-based octet i complemented
DropEnd(x, n)       == [t |-> "dropend", x |-> x, n |-> n]                     \* x without its last n octets
FromT(x, n)         == [t |-> "from", x |-> x, n |-> n]                        \* x from 0-based offset n to the end
LastN(x, n)         == [t |-> "lastn", x |-> x, n |-> n]                       \* the last n octets of x
OverwriteT(x, off, v) == [t |-> "overwrite", x |-> x, off |-> off, v |-> v]

HashLen(h) == CASE h = "md5" -> 16 [] h = "sha1" -> 20 [] h = "sha256" -> 32

RECURSIVE LenOf(_)
SumLens(a) == LET RECURSIVE S(_)
                  S(i) == IF i > Len(a) THEN 0 ELSE LenOf(a[i]) + S(i + 1)
              IN S(1)
LenOf(x) ==
  CASE x.t = "lit" -> Len(x.v)
    [] x.t = "fill" -> x.n
    [] x.t = "cat" -> SumLens(x.a)
    [] x.t = "slice" -> x.len
    [] x.t = "hmac" -> HashLen(x.h)
    [] x.t \in {"cbc", "cbcdec", "flip", "overwrite"} -> LenOf(x.x)
    [] x.t = "lpad" -> Max(x.n, LenOf(x.x))
    [] x.t \in {"var", "ref"} -> x.len
    [] x.t = "dropend" -> LenOf(x.x) - x.n
    [] x.t = "from" -> LenOf(x.x) - x.n
    [] x.t = "lastn" -> x.n

\* ---- algorithm tables, written from the RFCs
\* PRF_HMAC_MD5 / SHA1 / SHA2_256 (RFC 2104, RFC 7296 2.13, RFC 4868): preferred key length = output length
PrfNames == {"md5", "sha1", "sha256"}
PrfLen(p) == HashLen(p)
PrfId(p)  == CASE p = "md5" -> 1 [] p = "sha1" -> 2 [] p = "sha256" -> 5
\* AUTH_HMAC_MD5_96 (RFC 2403), AUTH_HMAC_SHA1_96 (RFC 2404), AUTH_HMAC_SHA2_256_128 (RFC 4868)
IntegNames == {"md5", "sha1", "sha256"}
IntegKeyLen(a) == HashLen(a)
IcvLen(a) == CASE a = "md5" -> 12 [] a = "sha1" -> 12 [] a = "sha256" -> 16
IntegId(a) == CASE a = "md5" -> 1 [] a = "sha1" -> 2 [] a = "sha256" -> 12
\* ENCR_AES_CBC (RFC 3602): block 16, key 128/192/256 bits, transform id 12, key-length attribute 14
EncrBits == {128, 192, 256}
EncrKeyLen(bits) == bits \div 8
\* Diffie-Hellman groups 2 and 14 (RFC 2409 6.2, RFC 3526 3): generator 2, 128 / 256 octets
DhLen(g) == CASE g = 2 -> 128 [] g = 14 -> 256

Suite(e, a, p) == [encr |-> e, integ |-> a, prf |-> p]
Suites9 == { Suite(e, a, "sha1") : e \in EncrBits, a \in IntegNames }
Suites27 == { Suite(e, a, p) : e \in EncrBits, a \in IntegNames, p \in PrfNames }
=============================================================================
