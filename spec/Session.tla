------------------------------- MODULE Session -------------------------------
(***************************************************************************)
(* One IKEv2 session between two users of the library, initiator I and     *)
(* responder R, with an adversary on the wire -- the composition of what   *)
(* the other modules specify piecewise (SALife: key establishment,         *)
(* SKChannel: protected channel on long-lived key objects, AkaSession:     *)
(* EAP-AKA' codes, KeySchedule: Child SAs).                                *)
(*                                                                         *)
(*   exchange 0   IKE_SA_INIT   in the clear: KE and nonces both ways       *)
(*   exchanges 1..Len(Script)   protected request / response pairs, the     *)
(*                message ID being the exchange number:                     *)
(*                "id"    IDi                  / IDr + EAP-AKA' challenge   *)
(*                "eap"   EAP-AKA' response    / EAP success                *)
(*                "auth"  AUTH                 / AUTH + SA + TSi + TSr      *)
(*                        (both ends derive the first Child SA)             *)
(*                "child" CREATE_CHILD_SA      (both ends derive a Child SA *)
(*                        from the nonces of this exchange)                 *)
(*                "info"  INFORMATIONAL Delete / empty                      *)
(*                                                                         *)
(* Cryptography is symbolic.  A public value is the set of exponents that  *)
(* went into it; keys are the record of what they were derived from; a     *)
(* protected datagram names the keys and direction it was made with and    *)
(* whether it is still as sent.  The library decides acceptance of a        *)
(* protected datagram (keys of the sender = keys of the receiver, made in   *)
(* the peer's direction, unaltered); everything about message IDs and the   *)
(* order of exchanges is the CALLER's business -- the parties below are     *)
(* such callers: they act on an accepted message only if it is the one they *)
(* are waiting for.                                                         *)
(*                                                                         *)
(* The adversary may alter the KE or nonce of an IKE_SA_INIT message in     *)
(* flight, alter any protected datagram, and deliver any datagram ever      *)
(* sent (again, to either party).                                           *)
(* Gen_Session prints behaviours of this machine as vectors and the         *)
(* replayer runs them on real key objects derived by the library itself.    *)
(***************************************************************************)
EXTENDS Naturals, Sequences, FiniteSets, TLC

CONSTANTS ScriptNo,   \* which of the Scripts below is played (a configuration file cannot hold a tuple)
          MaxAdv,     \* number of alterations the adversary may make
          MaxExtra,   \* number of deliveries beyond the one each honest step needs (replays, reflections, altered copies)
          DirCheck,   \* mechanism (library): a datagram is accepted only from the OTHER direction's keys (no reflection)
          MidCheck    \* mechanism (caller): an accepted message is acted on only if it carries the message ID waited for

Scripts == << << "id", "auth" >>, << "id", "eap", "auth", "info" >>, << "id", "eap", "auth", "child", "child", "info" >>, << "info", "info" >> >>
Script == Scripts[ScriptNo]

VARIABLES ini, res,   \* party states
          net,        \* every datagram put on the wire so far, honest or altered (append-only)
          adv, extra, \* budgets used
          hist        \* the behaviour as a sequence of events (what Gen_Session prints)
vars == << ini, res, net, adv, extra, hist >>

NoKeys == [has |-> FALSE, exps |-> {}, ni |-> "", nr |-> ""]
Keys(exps, ni, nr) == [has |-> TRUE, exps |-> exps, ni |-> ni, nr |-> nr]
Party0 == [ph |-> "start", keys |-> NoKeys, next |-> 1, waiting |-> FALSE, kids |-> << >>, got |-> << >>, seen |-> {}, acted |-> << >>]
\* (got: datagrams the library accepted; seen: datagrams delivered so far; acted: message IDs the caller acted on, in order)

\* datagrams (one record shape for all): plain ones carry pub / nonce, protected ones keys / dir
Plain(src, resp, pub, nonce) == [plain |-> TRUE, src |-> src, resp |-> resp, mid |-> 0, kind |-> "init", pub |-> pub, nonce |-> nonce,
                                 keys |-> NoKeys, intact |-> TRUE, of |-> 0]
Prot(src, resp, mid, kind, keys) == [plain |-> FALSE, src |-> src, resp |-> resp, mid |-> mid, kind |-> kind, pub |-> {}, nonce |-> "",
                                     keys |-> keys, intact |-> TRUE, of |-> 0]

Init == /\ ini = Party0 /\ res = Party0 /\ net = << >> /\ adv = 0 /\ extra = 0 /\ hist = << >>

E(ev, n, ok, due) == [ev |-> ev, n |-> n, ok |-> ok, due |-> due]      \* (one record shape for all events)
Ev(e) == hist' = Append(hist, e)
Send(d) == net' = Append(net, d)

\* ---- exchange 0
I_Init == /\ ini.ph = "start"
          /\ Send(Plain("I", FALSE, {"i"}, "ni")) /\ ini' = [ini EXCEPT !.ph = "wait_init"]
          /\ Ev(E("I_init", Len(net) + 1, TRUE, TRUE)) /\ UNCHANGED << res, adv, extra >>
\* R takes an IKE_SA_INIT request (whichever the adversary lets through), derives its keys, answers
R_Init(n) == /\ res.ph = "start" /\ n \in 1..Len(net) /\ net[n].plain /\ ~net[n].resp
             /\ res' = [res EXCEPT !.ph = "keyed", !.keys = Keys(net[n].pub \cup {"r"}, net[n].nonce, "nr")]
             /\ Send(Plain("R", TRUE, {"r"}, "nr"))
             /\ Ev(E("R_init", n, TRUE, TRUE)) /\ UNCHANGED << ini, adv, extra >>
I_Keyed(n) == /\ ini.ph = "wait_init" /\ n \in 1..Len(net) /\ net[n].plain /\ net[n].resp
              /\ ini' = [ini EXCEPT !.ph = "keyed", !.keys = Keys(net[n].pub \cup {"i"}, "ni", net[n].nonce)]
              /\ Ev(E("I_keyed", n, TRUE, TRUE)) /\ UNCHANGED << res, net, adv, extra >>

\* ---- protected exchanges
I_Request == /\ ini.ph = "keyed" /\ ~ini.waiting /\ ini.next <= Len(Script)
             /\ Send(Prot("I", FALSE, ini.next, Script[ini.next], ini.keys))
             /\ ini' = [ini EXCEPT !.waiting = TRUE]
             /\ Ev(E("I_request", Len(net) + 1, TRUE, TRUE)) /\ UNCHANGED << res, adv, extra >>
\* what the library decides: made with my keys, by the other direction, unaltered
Accepts(me, keys, d) == ~d.plain /\ d.intact /\ d.keys = keys /\ keys.has /\ (DirCheck => d.src # me)
Honest(d, p) == d.intact /\ d.of = 0                       \* a datagram a party put on the wire itself
Derives(kind) == kind \in {"auth", "child"}
Kid(keys, mid) == [from |-> keys, mid |-> mid]

R_Recv(n) ==
  /\ res.ph = "keyed" /\ n \in 1..Len(net) /\ ~net[n].plain
  /\ LET d == net[n] ok == Accepts("R", res.keys, d)
         due == ok /\ ~d.resp /\ (MidCheck => d.mid = res.next)          \* the caller acts on it only if it is the request it waits for
         first == n \notin res.seen IN
     /\ (first /\ Honest(d, "I") /\ d.src = "I" /\ ~d.resp /\ d.mid = res.next) \/ extra < MaxExtra
     /\ extra' = IF first /\ Honest(d, "I") /\ d.src = "I" /\ ~d.resp /\ d.mid = res.next THEN extra ELSE extra + 1
     /\ res' = IF due THEN [res EXCEPT !.next = @ + 1, !.got = Append(@, n), !.seen = @ \cup {n}, !.acted = Append(@, d.mid),
                                       !.kids = IF Derives(d.kind) THEN Append(@, Kid(res.keys, d.mid)) ELSE @]
                      ELSE IF ok THEN [res EXCEPT !.got = Append(@, n), !.seen = @ \cup {n}] ELSE [res EXCEPT !.seen = @ \cup {n}]
     /\ net' = IF due THEN Append(net, Prot("R", TRUE, d.mid, d.kind, res.keys)) ELSE net
     /\ Ev(E("R_recv", n, ok, due))
     /\ UNCHANGED << ini, adv >>
I_Recv(n) ==
  /\ ini.ph = "keyed" /\ n \in 1..Len(net) /\ ~net[n].plain
  /\ LET d == net[n] ok == Accepts("I", ini.keys, d)
         due == ok /\ d.resp /\ ini.waiting /\ (MidCheck => d.mid = ini.next)
         first == n \notin ini.seen IN
     /\ (first /\ Honest(d, "R") /\ d.src = "R" /\ d.resp /\ ini.waiting /\ d.mid = ini.next) \/ extra < MaxExtra
     /\ extra' = IF first /\ Honest(d, "R") /\ d.src = "R" /\ d.resp /\ ini.waiting /\ d.mid = ini.next THEN extra ELSE extra + 1
     /\ ini' = IF due THEN [ini EXCEPT !.next = @ + 1, !.waiting = FALSE, !.got = Append(@, n), !.seen = @ \cup {n}, !.acted = Append(@, d.mid),
                                       !.kids = IF Derives(d.kind) THEN Append(@, Kid(ini.keys, d.mid)) ELSE @]
                      ELSE IF ok THEN [ini EXCEPT !.got = Append(@, n), !.seen = @ \cup {n}] ELSE [ini EXCEPT !.seen = @ \cup {n}]
     /\ Ev(E("I_recv", n, ok, due))
     /\ UNCHANGED << res, net, adv >>

\* ---- the adversary: an altered copy of a datagram joins the wire (delivery is the receivers' choice of n)
A_TamperKE(n) == /\ adv < MaxAdv /\ n \in 1..Len(net) /\ net[n].plain /\ net[n].of = 0
                 /\ Send([net[n] EXCEPT !.pub = {"x"}, !.of = n]) /\ adv' = adv + 1
                 /\ Ev(E("A_ke", n, TRUE, FALSE)) /\ UNCHANGED << ini, res, extra >>
A_TamperNonce(n) == /\ adv < MaxAdv /\ n \in 1..Len(net) /\ net[n].plain /\ net[n].of = 0
                    /\ Send([net[n] EXCEPT !.nonce = "nx", !.of = n]) /\ adv' = adv + 1
                    /\ Ev(E("A_nonce", n, TRUE, FALSE)) /\ UNCHANGED << ini, res, extra >>
A_Alter(n) == /\ adv < MaxAdv /\ n \in 1..Len(net) /\ ~net[n].plain /\ net[n].intact
              /\ Send([net[n] EXCEPT !.intact = FALSE, !.of = n]) /\ adv' = adv + 1
              /\ Ev(E("A_alter", n, TRUE, FALSE)) /\ UNCHANGED << ini, res, extra >>

Next == \/ I_Init \/ I_Request
        \/ \E n \in 1..Len(net) : R_Init(n) \/ I_Keyed(n) \/ R_Recv(n) \/ I_Recv(n) \/ A_TamperKE(n) \/ A_TamperNonce(n) \/ A_Alter(n)
Spec == Init /\ [][Next]_vars

Finished == ini.next > Len(Script) /\ res.next > Len(Script)
\* model checking looks at the machine without its history variable
View == << ini, res, net, adv, extra >>

\* ---- what a user of the library relies on
\* every protected datagram a party accepted was put on the wire, unaltered, by its peer holding the same keys
Authentic ==
  /\ \A k \in 1..Len(res.got) : LET d == net[res.got[k]] IN d.intact /\ d.src = "I" /\ d.keys = res.keys /\ ini.keys = res.keys
  /\ \A k \in 1..Len(ini.got) : LET d == net[ini.got[k]] IN d.intact /\ d.src = "R" /\ d.keys = ini.keys /\ ini.keys = res.keys
\* the parties hold the same keys exactly when both IKE_SA_INIT messages arrived as sent; if not, nothing protected is ever accepted
KeysAgreeIffUntampered ==
  (ini.keys.has /\ res.keys.has) =>
     ((ini.keys = res.keys) <=> (ini.keys.exps = {"i", "r"} /\ res.keys.exps = {"i", "r"} /\ ini.keys.nr = "nr" /\ res.keys.ni = "ni"))
NothingUnderDisagreement == (ini.keys.has /\ res.keys.has /\ ini.keys # res.keys) => (ini.got = << >> /\ res.got = << >> /\ ini.next = 1 /\ res.next = 1)
\* the exchanges advance in lock step whatever is replayed, and each is acted on once
LockStep == /\ res.next \in {ini.next, ini.next + 1}
            /\ res.acted = [k \in 1..(res.next - 1) |-> k] /\ ini.acted = [k \in 1..(ini.next - 1) |-> k]
\* Child SAs: the k-th one is the same on both ends (same keys, same exchange)
ChildrenAgree == \A k \in 1..Len(ini.kids) : k <= Len(res.kids) /\ ini.kids[k] = res.kids[k]
=============================================================================
