------------------------------- MODULE SALife -------------------------------
(***************************************************************************)
(* Life of an IKE SA between an initiator I and a responder R (C07 C08     *)
(* C09, and the proposal handling of C11): secrets are drawn from the      *)
(* random source (which may fail at any read), public values exchanged,    *)
(* the shared secret computed, SKEYSEED and the seven SK_ keys derived,    *)
(* Child SAs derived any number of times.                                  *)
(*                                                                         *)
(* Diffie-Hellman is symbolic here: a public value is the set of exponents *)
(* applied to the generator, Shared(x, Y) = Y \cup {x}; so agreement is    *)
(* "both ends hold {xI, xR}".  The key schedule is symbolic too: a key set *)
(* is the record of its inputs.  The concrete octets (RFC 7296 2.13, 2.14, *)
(* 2.17 as terms over HMAC; RFC 2409 / 3526 primes) come from KeySchedule  *)
(* and DHGroups and are attached by the generation configurations.         *)
(***************************************************************************)
EXTENDS Naturals, Sequences, FiniteSets, TLC

CONSTANTS MaxChildren,     \* bound on derivations per side
          FailPoints       \* set of read indices at which the random source may fail (model values 0..k)

VARIABLES pcI, pcR,        \* "start" "secret" "sent" "done" "error"
          xI, xR,          \* secret ids (0 = none)
          pubI, pubR,      \* sets of exponents
          shI, shR,        \* shared secrets
          keysI, keysR,    \* [shared, nonces] or "none"-record
          kidsI, kidsR,    \* sequences of derived Child SA key records
          reads,           \* number of reads served by the random source so far
          failAt,          \* the read index that fails, or 99 for never
          ops
vars == << pcI, pcR, xI, xR, pubI, pubR, shI, shR, keysI, keysR, kidsI, kidsR, reads, failAt, ops >>

NoKeys == [has |-> FALSE, shared |-> {}]
Kdf(shared) == [has |-> TRUE, shared |-> shared]
Child(keys, n) == [from |-> keys.shared, nonce |-> n]

Init == /\ pcI = "start" /\ pcR = "start" /\ xI = 0 /\ xR = 0 /\ pubI = {} /\ pubR = {} /\ shI = {} /\ shR = {}
        /\ keysI = NoKeys /\ keysR = NoKeys /\ kidsI = << >> /\ kidsR = << >> /\ reads = 0
        /\ failAt \in FailPoints \cup {99} /\ ops = << >>

Op(o) == ops' = Append(ops, o)
RandOk == reads # failAt

\* I: GenerateRandomNumber, GetPublicValue
I_Secret == /\ pcI = "start" /\ Op("I_secret") /\ reads' = reads + 1
            /\ IF RandOk THEN xI' = 1 /\ pubI' = {1} /\ pcI' = "sent" ELSE xI' = 0 /\ pubI' = {} /\ pcI' = "error"
            /\ UNCHANGED << pcR, xR, pubR, shI, shR, keysI, keysR, kidsI, kidsR, failAt >>
\* R: NewIKESAKey = negotiate, draw secret, public value, shared secret, derive -- or an error and no key
R_NewSA == /\ pcR = "start" /\ pcI = "sent" /\ Op("R_newsa") /\ reads' = reads + 1
           /\ IF RandOk THEN /\ xR' = 2 /\ pubR' = {2} /\ shR' = pubI \cup {2} /\ keysR' = Kdf(pubI \cup {2}) /\ pcR' = "done"
                        ELSE /\ xR' = 0 /\ pubR' = {} /\ shR' = {} /\ keysR' = NoKeys /\ pcR' = "error"
           /\ UNCHANGED << pcI, xI, pubI, shI, keysI, kidsI, kidsR, failAt >>
\* I: GetSharedKey, GenerateKeyForIKESA
I_Finish == /\ pcI = "sent" /\ pcR = "done" /\ Op("I_finish")
            /\ shI' = pubR \cup {xI} /\ keysI' = Kdf(pubR \cup {xI}) /\ pcI' = "done"
            /\ UNCHANGED << pcR, xI, xR, pubI, pubR, shR, keysR, kidsI, kidsR, reads, failAt >>
ChildI(n) == /\ pcI = "done" /\ Len(kidsI) < MaxChildren /\ Op("I_child") /\ kidsI' = Append(kidsI, Child(keysI, n))
             /\ UNCHANGED << pcI, pcR, xI, xR, pubI, pubR, shI, shR, keysI, keysR, kidsR, reads, failAt >>
ChildR(n) == /\ pcR = "done" /\ Len(kidsR) < MaxChildren /\ Op("R_child") /\ kidsR' = Append(kidsR, Child(keysR, n))
             /\ UNCHANGED << pcI, pcR, xI, xR, pubI, pubR, shI, shR, keysI, keysR, kidsI, reads, failAt >>

Next == I_Secret \/ R_NewSA \/ I_Finish \/ (\E n \in {1, 2} : ChildI(n) \/ ChildR(n))

\* ---- properties
Agreement == (pcI = "done" /\ pcR = "done") => keysI = keysR /\ shI = {1, 2}                    \* C07 C09
NoKeyOnRandFailure == /\ (pcI = "error" => xI = 0 /\ pubI = {} /\ ~keysI.has)                    \* C09
                      /\ (pcR = "error" => xR = 0 /\ pubR = {} /\ ~keysR.has)
ChildIsFunction == /\ \A i \in 1..Len(kidsI) : kidsI[i].from = keysI.shared                      \* C08
                   /\ \A i, j \in 1..Len(kidsI) : kidsI[i].nonce = kidsI[j].nonce => kidsI[i] = kidsI[j]
                   /\ \A i \in 1..Len(kidsI), j \in 1..Len(kidsR) : kidsI[i].nonce = kidsR[j].nonce => kidsI[i] = kidsR[j]
KeysOnlyWhenDone == (keysI.has => pcI = "done") /\ (keysR.has => pcR = "done")
=============================================================================
