----------------------------- MODULE Trace_Cipher -----------------------------
(* T direction for C10: recorded cipher_new / cipher_encrypt calls judged by TLC; state = the cipher objects of the behaviour. *)
EXTENDS CipherLife, IOUtils
Trace == ndJsonDeserialize(IOEnv.VTRACE)
VARIABLES l, bad, objs, cur
Init == l = 1 /\ bad = << >> /\ objs = << >> /\ cur = ""
Next ==
  /\ l <= Len(Trace) /\ l' = l + 1
  /\ LET e == Trace[l] base == IF e.vid = cur THEN objs ELSE << >> IN
     /\ cur' = e.vid
     /\ objs' = IF e.ev = "cipher_new" /\ Has(e.obs, "err") /\ ~e.obs.err THEN [x \in (DOMAIN base) \cup {e.args.name} |-> IF x = e.args.name THEN e.args.key ELSE base[x]] ELSE base
     /\ bad' = bad \o (IF e.ev = "cipher_encrypt"
                         THEN (IF e.args.obj \in DOMAIN base THEN JudgeEncrypt(l, e, base[e.args.obj]) ELSE B(l, << "INFRA" >>, "encrypt on unknown object"))
                         ELSE << >>)
Done == l = Len(Trace) + 1 => JsonSerialize(IOEnv.VOUT, [n |-> l - 1, bad |-> bad])
=============================================================================
