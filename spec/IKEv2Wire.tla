----------------------------- MODULE IKEv2Wire -----------------------------
(***************************************************************************)
(* Independent reference codec for IKEv2 datagrams, RFC 7296 sections 3.1  *)
(* to 3.16, written from the RFC text and figures (not from the Go code).  *)
(*                                                                         *)
(* W-form: everything on the wire -- per payload the critical bit and the  *)
(*   7 reserved bits, every RESERVED field, transforms in wire order with  *)
(*   all their attributes, CP attribute R bit, unsupported payloads.       *)
(* D-form: what a user of the library holds (Appendix B of DESIGN.md).     *)
(* EncMsgW : W -> octets; ParseW : octets -> Ok(W) | Err(why);             *)
(* StripMsg : W -> D; PlainMsg : D -> W (canonical).                       *)
(* All length arithmetic is exact (unbounded naturals), so every           *)
(* structural requirement of the RFC is enforced by ParseW.                *)
(***************************************************************************)
EXTENDS EAPWire

TypeCode(k) == CASE k = "SA" -> 33 [] k = "KE" -> 34 [] k = "IDi" -> 35 [] k = "IDr" -> 36
                 [] k = "CERT" -> 37 [] k = "CERTREQ" -> 38 [] k = "AUTH" -> 39 [] k = "NONCE" -> 40
                 [] k = "N" -> 41 [] k = "D" -> 42 [] k = "V" -> 43 [] k = "TSi" -> 44 [] k = "TSr" -> 45
                 [] k = "SK" -> 46 [] k = "CP" -> 47 [] k = "EAP" -> 48
KindOf(t) == CASE t = 33 -> "SA" [] t = 34 -> "KE" [] t = 35 -> "IDi" [] t = 36 -> "IDr"
               [] t = 37 -> "CERT" [] t = 38 -> "CERTREQ" [] t = 39 -> "AUTH" [] t = 40 -> "NONCE"
               [] t = 41 -> "N" [] t = 42 -> "D" [] t = 43 -> "V" [] t = 44 -> "TSi" [] t = 45 -> "TSr"
               [] t = 46 -> "SK" [] t = 47 -> "CP" [] t = 48 -> "EAP" [] OTHER -> "UNK"
SupportedTypes == 33..48
TypeOf(p) == IF p.k = "UNK" THEN p.t ELSE TypeCode(p.k)

-----------------------------------------------------------------------------
(* Encoder, W-form                                                         *)

EncAttrW(a) == IF a.af = 1 THEN U16(32768 + a.at) \o U16(a.av)
                           ELSE U16(a.at) \o U16(Len(a.avl)) \o a.avl

EncTransW(t, last) ==
  LET as == Flat([i \in 1..Len(t.attrs) |-> EncAttrW(t.attrs[i])]) IN
  << IF last THEN 0 ELSE 3, t.r1 >> \o U16(8 + Len(as)) \o << t.tt, t.r2 >> \o U16(t.tid) \o as

EncPropW(p, last) ==
  LET n   == Len(p.tr)
      trs == Flat([i \in 1..n |-> EncTransW(p.tr[i], i = n)]) IN
  << IF last THEN 0 ELSE 2, p.r >> \o U16(8 + Len(p.spi) + Len(trs))
     \o << p.num, p.proto, Len(p.spi), n >> \o p.spi \o trs

EncSelW(s) == << s.tst, s.proto >> \o U16(8 + Len(s.sa) + Len(s.ea)) \o U16(s.sp) \o U16(s.ep) \o s.sa \o s.ea

EncCfgAttrW(a) == U16(a.r * 32768 + a.t) \o U16(Len(a.v)) \o a.v

EncBodyW(p) ==
  CASE p.k = "SA"      -> LET n == Len(p.props) IN Flat([i \in 1..n |-> EncPropW(p.props[i], i = n)])
    [] p.k = "KE"      -> U16(p.grp) \o U16(p.r) \o p.data
    [] p.k \in {"IDi", "IDr"} -> << p.idt >> \o p.r \o p.data
    [] p.k \in {"CERT", "CERTREQ"} -> << p.enc >> \o p.data
    [] p.k = "AUTH"    -> << p.meth >> \o p.r \o p.data
    [] p.k \in {"NONCE", "V", "SK"} -> p.data
    [] p.k = "N"       -> << p.proto, Len(p.spi) >> \o U16(p.ntype) \o p.spi \o p.data
    [] p.k = "D"       -> << p.proto, p.spisz >> \o U16(p.num) \o Flat(p.spis)
    [] p.k \in {"TSi", "TSr"} -> << Len(p.sel) >> \o p.r \o Flat([i \in 1..Len(p.sel) |-> EncSelW(p.sel[i])])
    [] p.k = "CP"      -> << p.cft >> \o p.r \o Flat([i \in 1..Len(p.attrs) |-> EncCfgAttrW(p.attrs[i])])
    [] p.k = "EAP"     -> EncEapW(p.eap)
    [] p.k = "UNK"     -> p.body

EncGeneric(next, crit, rsv, body) == << next, crit * 128 + rsv >> \o U16(4 + Len(body)) \o body

\* next-payload of element i: the type of element i+1; the last element says 0, except a trailing
\* Encrypted payload which names the first inner payload (RFC 7296 section 3.14)
NextOf(ps, i) == IF i < Len(ps) THEN TypeOf(ps[i + 1])
                 ELSE IF ps[i].k = "SK" THEN ps[i].next ELSE 0
FirstOf(ps) == IF Len(ps) = 0 THEN 0 ELSE TypeOf(ps[1])

EncChainW(ps) == Flat([i \in 1..Len(ps) |-> EncGeneric(NextOf(ps, i), ps[i].crit, ps[i].rsv, EncBodyW(ps[i]))])

EncHeader(m, first, bodyLen) ==
  m.ispi \o m.rspi \o << first, m.maj * 16 + m.min, m.xt, m.flags >> \o m.mid \o U32(28 + bodyLen)

EncMsgW(m) == LET body == EncChainW(m.payloads) IN EncHeader(m, FirstOf(m.payloads), Len(body)) \o body

-----------------------------------------------------------------------------
(* Strict parser, W-form                                                   *)

RECURSIVE ParseAttrsW(_)
ParseAttrsW(b) ==
  IF Len(b) = 0 THEN Ok(<< >>)
  ELSE IF Len(b) < 4 THEN Err("attribute truncated")
  ELSE LET af == TopBit(b[1]) at == Rd16(b, 1) % 32768 IN
       IF af = 1
         THEN LET rest == ParseAttrsW(From(b, 5)) IN
              IF ~rest.ok THEN rest
              ELSE Ok(<< [af |-> 1, at |-> at, av |-> Rd16(b, 3), avl |-> << >>] >> \o rest.v)
         ELSE LET alen == Rd16(b, 3) IN
              IF 4 + alen > Len(b) THEN Err("attribute value overruns transform")
              ELSE LET rest == ParseAttrsW(From(b, 5 + alen)) IN
                   IF ~rest.ok THEN rest
                   ELSE Ok(<< [af |-> 0, at |-> at, av |-> 0, avl |-> Sub(b, 5, alen)] >> \o rest.v)

RECURSIVE ParseTransW(_)
ParseTransW(b) ==
  IF Len(b) = 0 THEN Ok(<< >>)
  ELSE IF Len(b) < 8 THEN Err("transform header truncated")
  ELSE LET tlen == Rd16(b, 3) IN
       IF tlen < 8 \/ tlen > Len(b) THEN Err("transform length")
       ELSE IF b[1] \notin {0, 3} \/ ((b[1] = 0) # (tlen = Len(b))) THEN Err("transform last-substructure marker")
       ELSE LET as == ParseAttrsW(Sub(b, 9, tlen - 8)) IN
            IF ~as.ok THEN as
            ELSE LET rest == ParseTransW(From(b, tlen + 1)) IN
                 IF ~rest.ok THEN rest
                 ELSE Ok(<< [r1 |-> b[2], tt |-> b[5], r2 |-> b[6], tid |-> Rd16(b, 7), attrs |-> as.v] >> \o rest.v)

RECURSIVE ParsePropsW(_)
ParsePropsW(b) ==
  IF Len(b) = 0 THEN Ok(<< >>)
  ELSE IF Len(b) < 8 THEN Err("proposal header truncated")
  ELSE LET plen == Rd16(b, 3) spisz == b[7] ntr == b[8] IN
       IF plen < 8 \/ plen > Len(b) THEN Err("proposal length")
       ELSE IF b[1] \notin {0, 2} \/ ((b[1] = 0) # (plen = Len(b))) THEN Err("proposal last-substructure marker")
       ELSE IF 8 + spisz > plen THEN Err("proposal SPI overruns proposal")
       ELSE LET trs == ParseTransW(Sub(b, 9 + spisz, plen - 8 - spisz)) IN
            IF ~trs.ok THEN trs
            ELSE IF Len(trs.v) # ntr THEN Err("transform count")
            ELSE LET rest == ParsePropsW(From(b, plen + 1)) IN
                 IF ~rest.ok THEN rest
                 ELSE Ok(<< [r |-> b[2], num |-> b[5], proto |-> b[6], spi |-> Sub(b, 9, spisz), tr |-> trs.v] >> \o rest.v)

RECURSIVE ParseSelsW(_)
ParseSelsW(b) ==
  IF Len(b) = 0 THEN Ok(<< >>)
  ELSE IF Len(b) < 8 THEN Err("selector header truncated")
  ELSE LET slen == Rd16(b, 3) tst == b[1] IN
       IF slen < 8 \/ slen > Len(b) THEN Err("selector length")
       ELSE IF (tst = 7 /\ slen # 16) \/ (tst = 8 /\ slen # 40) \/ (slen - 8) % 2 # 0 THEN Err("selector length vs type")
       ELSE LET half == (slen - 8) \div 2
                rest == ParseSelsW(From(b, slen + 1)) IN
            IF ~rest.ok THEN rest
            ELSE Ok(<< [tst |-> tst, proto |-> b[2], sp |-> Rd16(b, 5), ep |-> Rd16(b, 7),
                        sa |-> Sub(b, 9, half), ea |-> Sub(b, 9 + half, half)] >> \o rest.v)

RECURSIVE ParseCfgAttrsW(_)
ParseCfgAttrsW(b) ==
  IF Len(b) = 0 THEN Ok(<< >>)
  ELSE IF Len(b) < 4 THEN Err("configuration attribute truncated")
  ELSE LET alen == Rd16(b, 3) IN
       IF 4 + alen > Len(b) THEN Err("configuration attribute overruns payload")
       ELSE LET rest == ParseCfgAttrsW(From(b, 5 + alen)) IN
            IF ~rest.ok THEN rest
            ELSE Ok(<< [r |-> TopBit(b[1]), t |-> Rd16(b, 1) % 32768, v |-> Sub(b, 5, alen)] >> \o rest.v)

\* the body of a supported payload of kind k; crit / rsv come from the generic header
ParseBodyW(k, crit, rsv, b) ==
  LET G(rec) == Ok(rec @@ [k |-> k, crit |-> crit, rsv |-> rsv]) IN
  CASE k = "SA" -> LET ps == ParsePropsW(b) IN IF ~ps.ok THEN ps ELSE G([props |-> ps.v])
    [] k = "KE" -> IF Len(b) < 4 THEN Err("KE truncated")
                   ELSE G([grp |-> Rd16(b, 1), r |-> Rd16(b, 3), data |-> From(b, 5)])
    [] k \in {"IDi", "IDr"} -> IF Len(b) < 4 THEN Err("ID truncated")
                   ELSE G([idt |-> b[1], r |-> Sub(b, 2, 3), data |-> From(b, 5)])
    [] k \in {"CERT", "CERTREQ"} -> IF Len(b) < 1 THEN Err("CERT truncated")
                   ELSE G([enc |-> b[1], data |-> From(b, 2)])
    [] k = "AUTH" -> IF Len(b) < 4 THEN Err("AUTH truncated")
                   ELSE G([meth |-> b[1], r |-> Sub(b, 2, 3), data |-> From(b, 5)])
    [] k \in {"NONCE", "V"} -> G([data |-> b])
    [] k = "N" -> IF Len(b) < 4 THEN Err("Notify truncated")
                  ELSE IF 4 + b[2] > Len(b) THEN Err("Notify SPI overruns payload")
                  ELSE G([proto |-> b[1], ntype |-> Rd16(b, 3), spi |-> Sub(b, 5, b[2]), data |-> From(b, 5 + b[2])])
    [] k = "D" -> IF Len(b) < 4 THEN Err("Delete truncated")
                  ELSE LET sz == b[2] num == Rd16(b, 3) IN
                       IF sz * num # Len(b) - 4 THEN Err("Delete SPI size x count differs from extent")
                       ELSE G([proto |-> b[1], spisz |-> sz, num |-> num,
                               spis |-> [i \in 1..(IF sz = 0 THEN 0 ELSE num) |-> Sub(b, 5 + (i - 1) * sz, sz)]])
    [] k \in {"TSi", "TSr"} -> IF Len(b) < 4 THEN Err("TS truncated")
                  ELSE LET ss == ParseSelsW(From(b, 5)) IN
                       IF ~ss.ok THEN ss
                       ELSE IF Len(ss.v) # b[1] THEN Err("selector count")
                       ELSE G([r |-> Sub(b, 2, 3), sel |-> ss.v])
    [] k = "CP" -> IF Len(b) < 4 THEN Err("CP truncated")
                   ELSE LET as == ParseCfgAttrsW(From(b, 5)) IN
                        IF ~as.ok THEN as ELSE G([cft |-> b[1], r |-> Sub(b, 2, 3), attrs |-> as.v])
    [] k = "EAP" -> LET e == ParseEapW(b) IN IF ~e.ok THEN e ELSE G([eap |-> e.v])

RECURSIVE ParseChainW(_, _)
ParseChainW(first, b) ==
  IF Len(b) = 0 THEN (IF first = 0 THEN Ok(<< >>) ELSE Err("chain names a payload that is not there"))
  ELSE IF first = 0 THEN Err("octets after the end of the chain")
  ELSE IF Len(b) < 4 THEN Err("generic header truncated")
  ELSE LET plen == Rd16(b, 3) crit == TopBit(b[2]) rsv == Low7(b[2]) k == KindOf(first) IN
       IF plen < 4 \/ plen > Len(b) THEN Err("payload length")
       ELSE LET body == Sub(b, 5, plen - 4) IN
       IF k = "SK"
         THEN IF plen # Len(b) THEN Err("Encrypted payload is not the last payload")
              ELSE Ok(<< [k |-> "SK", crit |-> crit, rsv |-> rsv, next |-> b[1], data |-> body] >>)
       ELSE IF k = "UNK" /\ crit = 1 THEN Err("critical")
       ELSE LET one == IF k = "UNK" THEN Ok([k |-> "UNK", t |-> first, crit |-> 0, rsv |-> rsv, body |-> body])
                                     ELSE ParseBodyW(k, crit, rsv, body) IN
            IF ~one.ok THEN one
            ELSE LET rest == ParseChainW(b[1], From(b, plen + 1)) IN
                 IF ~rest.ok THEN rest ELSE Ok(<< one.v >> \o rest.v)

HeaderOf(b) == [ispi |-> Sub(b, 1, 8), rspi |-> Sub(b, 9, 8), maj |-> b[18] \div 16, min |-> b[18] % 16,
                xt |-> b[19], flags |-> b[20], mid |-> Sub(b, 21, 4)]

HdrFields(m) == [ispi |-> m.ispi, rspi |-> m.rspi, maj |-> m.maj, min |-> m.min, xt |-> m.xt, flags |-> m.flags, mid |-> m.mid]

ParseW(b) ==
  IF Len(b) < 28 THEN Err("header truncated")
  ELSE IF Sub(b, 25, 4) # U32(Len(b)) THEN Err("header length differs from datagram size")
  ELSE LET ch == ParseChainW(b[17], From(b, 29)) IN
       IF ~ch.ok THEN ch ELSE Ok(HeaderOf(b) @@ [payloads |-> ch.v])

-----------------------------------------------------------------------------
(* W <-> D                                                                 *)

AttrStrip(attrs) ==
  IF Len(attrs) = 0 THEN [attr |-> "none", at |-> 0, av |-> 0, avl |-> << >>]
  ELSE LET a == attrs[1] IN
       IF a.af = 1 THEN [attr |-> "tv", at |-> a.at, av |-> a.av, avl |-> << >>]
                   ELSE [attr |-> "tlv", at |-> a.at, av |-> 0, avl |-> a.avl]
TransStrip(t) == [c |-> t.tt, tt |-> t.tt, tid |-> t.tid] @@ AttrStrip(t.attrs)
PropStrip(p)  == [num |-> p.num, proto |-> p.proto, spi |-> p.spi, tr |-> [i \in 1..Len(p.tr) |-> TransStrip(p.tr[i])]]

PayloadStrip(p) ==
  CASE p.k = "SA" -> [k |-> "SA", props |-> [i \in 1..Len(p.props) |-> PropStrip(p.props[i])]]
    [] p.k = "KE" -> [k |-> "KE", grp |-> p.grp, data |-> p.data]
    [] p.k \in {"IDi", "IDr"} -> [k |-> p.k, idt |-> p.idt, data |-> p.data]
    [] p.k \in {"CERT", "CERTREQ"} -> [k |-> p.k, enc |-> p.enc, data |-> p.data]
    [] p.k = "AUTH" -> [k |-> "AUTH", meth |-> p.meth, data |-> p.data]
    [] p.k \in {"NONCE", "V"} -> [k |-> p.k, data |-> p.data]
    [] p.k = "N" -> [k |-> "N", proto |-> p.proto, ntype |-> p.ntype, spi |-> p.spi, data |-> p.data]
    [] p.k = "D" -> [k |-> "D", proto |-> p.proto, spisz |-> p.spisz, num |-> p.num, spis |-> p.spis]
    [] p.k \in {"TSi", "TSr"} -> [k |-> p.k, sel |-> p.sel]
    [] p.k = "CP" -> [k |-> "CP", cft |-> p.cft, attrs |-> [i \in 1..Len(p.attrs) |-> [t |-> p.attrs[i].t, v |-> p.attrs[i].v]]]
    [] p.k = "EAP" -> [k |-> "EAP", eap |-> EapStrip(p.eap)]
    [] p.k = "SK" -> [k |-> "SK", next |-> p.next, data |-> p.data]

StripChain(ps) == LET sup == SelectSeq(ps, LAMBDA p : p.k # "UNK") IN [i \in 1..Len(sup) |-> PayloadStrip(sup[i])]
StripMsg(w) == [ispi |-> w.ispi, rspi |-> w.rspi, maj |-> w.maj, min |-> w.min, xt |-> w.xt, flags |-> w.flags,
                mid |-> w.mid, payloads |-> StripChain(w.payloads)]

AttrPlain(t) == CASE t.attr = "none" -> << >>
                  [] t.attr = "tv"  -> << [af |-> 1, at |-> t.at, av |-> t.av, avl |-> << >>] >>
                  [] t.attr = "tlv" -> << [af |-> 0, at |-> t.at, av |-> 0, avl |-> t.avl] >>
TransPlain(t) == [r1 |-> 0, tt |-> t.tt, r2 |-> 0, tid |-> t.tid, attrs |-> AttrPlain(t)]
PropPlain(p)  == [r |-> 0, num |-> p.num, proto |-> p.proto, spi |-> p.spi, tr |-> [i \in 1..Len(p.tr) |-> TransPlain(p.tr[i])]]
Z3 == << 0, 0, 0 >>
PayloadPlain(p) ==
  LET G(rec) == rec @@ [k |-> p.k, crit |-> 0, rsv |-> 0] IN
  CASE p.k = "SA" -> G([props |-> [i \in 1..Len(p.props) |-> PropPlain(p.props[i])]])
    [] p.k = "KE" -> G([grp |-> p.grp, r |-> 0, data |-> p.data])
    [] p.k \in {"IDi", "IDr"} -> G([idt |-> p.idt, r |-> Z3, data |-> p.data])
    [] p.k \in {"CERT", "CERTREQ"} -> G([enc |-> p.enc, data |-> p.data])
    [] p.k = "AUTH" -> G([meth |-> p.meth, r |-> Z3, data |-> p.data])
    [] p.k \in {"NONCE", "V"} -> G([data |-> p.data])
    [] p.k = "N" -> G([proto |-> p.proto, ntype |-> p.ntype, spi |-> p.spi, data |-> p.data])
    [] p.k = "D" -> G([proto |-> p.proto, spisz |-> p.spisz, num |-> p.num, spis |-> p.spis])
    [] p.k \in {"TSi", "TSr"} -> G([r |-> Z3, sel |-> p.sel])
    [] p.k = "CP" -> G([cft |-> p.cft, r |-> Z3, attrs |-> [i \in 1..Len(p.attrs) |-> [r |-> 0, t |-> p.attrs[i].t, v |-> p.attrs[i].v]]])
    [] p.k = "EAP" -> G([eap |-> EapPlain(p.eap)])
    [] p.k = "SK" -> G([next |-> p.next, data |-> p.data])
PlainChain(ps) == [i \in 1..Len(ps) |-> PayloadPlain(ps[i])]
PlainMsg(d) == [ispi |-> d.ispi, rspi |-> d.rspi, maj |-> d.maj, min |-> d.min, xt |-> d.xt, flags |-> d.flags,
                mid |-> d.mid, payloads |-> PlainChain(d.payloads)]

EncChain(ps) == EncChainW(PlainChain(ps))
EncMsg(d)    == EncMsgW(PlainMsg(d))

\* ---- "reserved fields and critical flags are zero" as a predicate on a parse result
PayloadRsvZero(p) ==
  /\ p.crit = 0 /\ p.rsv = 0
  /\ CASE p.k = "SA" -> \A i \in 1..Len(p.props) :
                          /\ p.props[i].r = 0
                          /\ \A j \in 1..Len(p.props[i].tr) : p.props[i].tr[j].r1 = 0 /\ p.props[i].tr[j].r2 = 0
       [] p.k = "KE" -> p.r = 0
       [] p.k \in {"IDi", "IDr", "AUTH", "TSi", "TSr"} -> AllZero(p.r)
       [] p.k = "CP" -> AllZero(p.r) /\ \A i \in 1..Len(p.attrs) : p.attrs[i].r = 0
       [] p.k = "EAP" -> EapRsvZero(p.eap)
       [] OTHER -> TRUE
ChainRsvZero(ps) == \A i \in 1..Len(ps) : PayloadRsvZero(ps[i])

\* ---- W values that the library's value domain can hold without loss
TransRepresentable(t) == t.tt \in 1..5 /\ Len(t.attrs) <= 1
PayloadRepresentable(p) ==
  CASE p.k = "SA" -> \A i \in 1..Len(p.props) : \A j \in 1..Len(p.props[i].tr) : TransRepresentable(p.props[i].tr[j])
    [] p.k = "D" -> p.spisz = 4 \/ p.num = 0
    [] p.k = "EAP" -> /\ p.eap.m # "other"
                      /\ p.eap.m = "aka" => /\ EapDistinctTypes(p.eap.attrs)
                                            /\ \A i \in 1..Len(p.eap.attrs) : p.eap.attrs[i].t \in AkaSettable
    [] OTHER -> TRUE
ChainRepresentable(ps) == \A i \in 1..Len(ps) : PayloadRepresentable(ps[i])
HasUnk(ps) == \E i \in 1..Len(ps) : ps[i].k = "UNK"

-----------------------------------------------------------------------------
(* RFC 7296 section 2.5 / 3.2 skip semantics as a wire-level edit: insert   *)
(* an unsupported payload before position pos (1..n+1) of an encoded chain. *)
(* Works on the W-form: the encoder fixes next-payload fields.             *)
InsertUnk(ps, pos, t, crit, rsv, body) ==
  LET u == [k |-> "UNK", t |-> t, crit |-> crit, rsv |-> rsv, body |-> body] IN
  SubSeq(ps, 1, pos - 1) \o << u >> \o SubSeq(ps, pos, Len(ps))
=============================================================================
